//go:build !amd64

package sim

func goid() int64 { return slowGoid() }

var goidOff = -1

// GHandle names a goroutine for cheap status questions (not available on this architecture: always "ask the runtime").
type GHandle struct{ id int64 }

func ThisG() GHandle              { return GHandle{goid()} }
func (h GHandle) NotParked() bool { return false }
func (h GHandle) Parked() bool    { return false }

var gstatusOff = -1
