package sim

import (
	"runtime"
	"sync/atomic"
	"unsafe"
)

func runtimeGosched() { runtime.Gosched() }

// A goroutine's id read from its g structure (a few nanoseconds) instead of from a stack dump (a traceback of up to a
// hundred frames per question: with one question per Read and Write it was four fifths of the C07 run).
//
// The offset of the id inside g is not assumed: it is found at start-up by comparing, on several goroutines, the id
// printed by runtime.Stack with the words of g, and used only if exactly one offset agrees on all of them and a
// second set of goroutines confirms it; otherwise goid() keeps using the stack dump.

func getg() unsafe.Pointer

var goidOff = -1

const goidWords = 64

// matching offsets of the calling goroutine, as a bit set over the first goidWords words of g
func goidCandidates() (set uint64) {
	g, id := getg(), slowGoid()
	if g == nil {
		return 0
	}
	for w := 0; w < goidWords; w++ {
		if *(*int64)(unsafe.Add(g, w*8)) == id {
			set |= 1 << w
		}
	}
	return
}

func init() {
	set := goidCandidates()
	for i := 0; i < 4; i++ {
		c := make(chan uint64)
		go func() { c <- goidCandidates() }()
		set &= <-c
	}
	if set == 0 || set&(set-1) != 0 {
		return // none, or ambiguous: keep the slow way
	}
	found := 0
	for set>>1 != 0 {
		set >>= 1
		found += 8
	}
	// second opinion on goroutines that took no part in the calibration
	for i := 0; i < 8; i++ {
		c := make(chan bool)
		go func() { c <- *(*int64)(unsafe.Add(getg(), found)) == slowGoid() }()
		if !<-c {
			return
		}
	}
	goidOff = found
	calibrateStatus()
}

// The scheduling status of a goroutine read from its g (the word before the id holds it in every runtime this was
// tried on; not assumed either: the running goroutine must show "running" there and a goroutine known - from a stack
// dump - to be parked on a channel must show "waiting", otherwise the stack dump stays the only source).
var gstatusOff = -1

const (
	gRunning = 2
	gWaiting = 4
)

func calibrateStatus() {
	off := goidOff - 8
	if off < 0 {
		return
	}
	if *(*uint32)(unsafe.Add(getg(), off))&^0x1000 != gRunning {
		return
	}
	gc := make(chan unsafe.Pointer)
	ic := make(chan int64, 1)
	block := make(chan struct{})
	go func() {
		ic <- goid()
		gc <- getg()
		<-block
	}()
	id := <-ic
	g := <-gc
	defer close(block)
	var buf []byte
	for i := 0; i < 100000; i++ {
		var st string
		st, buf = goroutineState(id, buf)
		if st == "chan receive" {
			if *(*uint32)(unsafe.Add(g, off))&^0x1000 == gWaiting {
				gstatusOff = off
			}
			return
		}
		runtimeGosched()
	}
}

// GHandle names a goroutine for cheap status questions.
type GHandle struct {
	g  unsafe.Pointer
	id int64
}

// ThisG is the handle of the calling goroutine.
func ThisG() GHandle { return GHandle{getg(), goid()} }

// Parked reports that the goroutine is known to be parked (waiting) right now (cheap; false = ask the runtime).
func (h GHandle) Parked() bool {
	if gstatusOff < 0 || goidOff < 0 || h.g == nil {
		return false
	}
	if *(*int64)(unsafe.Add(h.g, goidOff)) != h.id {
		return false
	}
	return atomic.LoadUint32((*uint32)(unsafe.Add(h.g, gstatusOff)))&^0x1000 == gWaiting
}

// NotParked reports that the goroutine is known to be running or runnable right now (cheap; false = ask the runtime).
func (h GHandle) NotParked() bool {
	if gstatusOff < 0 || goidOff < 0 || h.g == nil {
		return false
	}
	if *(*int64)(unsafe.Add(h.g, goidOff)) != h.id {
		return false // the g has gone to another goroutine
	}
	st := atomic.LoadUint32((*uint32)(unsafe.Add(h.g, gstatusOff))) &^ 0x1000
	return st != gWaiting
}

func goid() int64 {
	if goidOff < 0 {
		return slowGoid()
	}
	return *(*int64)(unsafe.Add(getg(), goidOff))
}
