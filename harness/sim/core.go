// Package sim is the deterministic simulator core shared by all checks: the single seeded
// choice source (rapid's bit-stream), per-run bookkeeping (evidence counters, probes, fault
// counts, distinct-case bitmap), failure classification, known-finding matching, replay files
// and the wall-clock watchdog. See /verif/DESIGN.md §3.
package sim

import (
	"bufio"
	"encoding/json"
	"fmt"
	"hash/fnv"
	"os"
	"path/filepath"
	"sort"
	"strings"
	"sync/atomic"
	"testing"
	"time"

	"pgregory.net/rapid"

	vsync "github.com/ohler55/ojg/verifsync"
)

// Failure is one oracle disagreement found in one simulated run.
type Failure struct {
	Class  string         // violation class: oracle name + API pair; stable under shrinking
	Detail string         // free text for humans
	Attrs  map[string]any // structural attributes for known-finding predicates
}

// Known is one line of /verif/known_findings.jsonl.
type Known struct {
	Kind     string         `json:"kind"` // "known" or "fixed"
	Property string         `json:"property"`
	Class    string         `json:"class"`
	Match    map[string]any `json:"match"` // every key must equal the failure's attribute
	What     string         `json:"what"`
	Commit   string         `json:"commit,omitempty"`
}

// Ctx is the per-case context handed to a property body.
type Ctx struct {
	T          *rapid.T
	Prop       string
	failures   []Failure
	key        []byte // distinct-case key material
	nontrivial bool
	render     func() any
	steps      int64
	events     []string // optional event log for the determinism self-test
	pending    any      // panic value of an aborted lazy draw, re-raised by finish
}

// Run-wide state (one property per process).
type runState struct {
	prop       string
	tier       string
	seed       int64
	shard      int
	out        string
	replayDir  string
	known      []Known
	knownHit   map[string]int64
	cases      int64
	executions int64
	nontrivial int64
	steps      int64
	probes     map[string]int64
	faults     map[string]int64
	bitmap     []uint64
	bitmapBits uint64
	samples    []any
	sampleAt   map[int64]bool
	lastFail   *failRecord
	viaCx      bool
	start      time.Time
	evlog      *bufio.Writer
	evlogFile  *os.File
	progress   atomic.Int64
	baselineOK atomic.Bool // the non-simulated baseline of the case in progress has completed
	inCase     atomic.Bool
	caseRender atomic.Value // func() any of the case in progress
	shrinking  bool
	extra      map[string]any
	survey     map[string]*surveyEntry
}

type surveyEntry struct {
	Count   int64  `json:"count"`
	Detail  string `json:"detail"`
	Example any    `json:"example"`
	keyLen  int
}

type failRecord struct {
	Class  string
	Detail string
	Attrs  map[string]any
	Case   any
}

var rs *runState

func envInt(name string, def int64) int64 {
	if v := os.Getenv(name); v != "" {
		var n int64
		if _, err := fmt.Sscan(v, &n); err == nil {
			return n
		}
	}
	return def
}

// Main runs one property's rapid check inside a go test binary and writes the shard's
// result file. body draws a case from cx.T, runs it and reports disagreements with cx.Fail.
func Main(t *testing.T, prop string, body func(cx *Ctx)) {
	rs = &runState{
		prop:      prop,
		tier:      os.Getenv("VERIF_TIER"),
		seed:      envInt("VERIF_SEED", 1),
		shard:     int(envInt("VERIF_SHARD", 0)),
		out:       os.Getenv("VERIF_OUT"),
		replayDir: os.Getenv("VERIF_REPLAY_DIR"),
		knownHit:  map[string]int64{},
		probes:    map[string]int64{},
		faults:    map[string]int64{},
		sampleAt:  map[int64]bool{},
		start:     time.Now(),
		extra:     map[string]any{},
	}
	if rs.tier == "" {
		rs.tier = "quick"
	}
	if os.Getenv("VERIF_SURVEY") != "" {
		rs.survey = map[string]*surveyEntry{}
	}
	bits := uint64(1) << 24
	if rs.tier == "thorough" {
		bits = 1 << 27
	}
	rs.bitmapBits = bits
	rs.bitmap = make([]uint64, bits/64)
	loadKnown(os.Getenv("VERIF_KNOWN"), prop)
	if p := os.Getenv("VERIF_EVLOG"); p != "" {
		f, err := os.Create(p)
		if err != nil {
			t.Fatalf("evlog: %v", err)
		}
		rs.evlogFile = f
		rs.evlog = bufio.NewWriterSize(f, 1<<20)
	}
	startWatchdog()
	status := "error"
	defer func() {
		if rs.evlog != nil {
			rs.evlog.Flush()
			rs.evlogFile.Close()
		}
		if r := recover(); r != nil {
			writeResult("error", fmt.Sprintf("harness panic: %v", r))
			panic(r)
		}
		if t.Failed() {
			if rs.viaCx && rs.lastFail != nil {
				status = "violation"
			} else {
				status = "error"
			}
		} else {
			status = "ok"
		}
		writeResult(status, "")
	}()
	rapid.Check(t, func(rt *rapid.T) {
		cx := &Ctx{T: rt, Prop: prop}
		vsync.SetGoidFn(goid) // (this goroutine drives the case; goroutines the library starts by itself are told apart from it)
		rs.inCase.Store(true)
		rs.baselineOK.Store(false)
		rs.progress.Add(1)
		body(cx)
		rs.inCase.Store(false)
		cx.finish()
	})
}

func loadKnown(path, prop string) {
	if path == "" {
		return
	}
	f, err := os.Open(path)
	if err != nil {
		return
	}
	defer f.Close()
	sc := bufio.NewScanner(f)
	sc.Buffer(make([]byte, 1<<20), 1<<20)
	for sc.Scan() {
		line := strings.TrimSpace(sc.Text())
		if line == "" || strings.HasPrefix(line, "#") {
			continue
		}
		var k Known
		if err := json.Unmarshal([]byte(line), &k); err != nil {
			fmt.Fprintf(os.Stderr, "known_findings: bad line: %v\n", err)
			os.Exit(2)
		}
		if k.Kind == "known" && k.Property == prop {
			rs.known = append(rs.known, k)
		}
	}
}

func (k *Known) matches(f *Failure) bool {
	if !globMatch(k.Class, f.Class) {
		return false
	}
	for key, want := range k.Match {
		got, ok := f.Attrs[key]
		if !ok {
			return false
		}
		if fmt.Sprint(got) != fmt.Sprint(want) {
			return false
		}
	}
	return true
}

// Fail records an oracle disagreement for the current case.
func (cx *Ctx) Fail(class, detail string, attrs map[string]any) {
	cx.failures = append(cx.failures, Failure{Class: class, Detail: detail, Attrs: attrs})
}

// Failed reports whether the case has recorded any disagreement so far.
func (cx *Ctx) Failed() bool { return len(cx.failures) > 0 }

// Key adds material to the distinct-case key.
func (cx *Ctx) Key(parts ...any) {
	for _, p := range parts {
		switch v := p.(type) {
		case []byte:
			cx.key = append(cx.key, v...)
		case string:
			cx.key = append(cx.key, v...)
		default:
			cx.key = append(cx.key, fmt.Sprint(v)...)
		}
		cx.key = append(cx.key, 0xff)
	}
}

// NonTrivial marks the case as non-trivial by the property's stated rule.
func (cx *Ctx) NonTrivial() { cx.nontrivial = true }

// Render installs the function that writes the case out for samples and replay files.
func (cx *Ctx) Render(f func() any) {
	cx.render = f
	rs.caseRender.Store(f)
}

// BaselineDone tells the watchdog that the non-simulated baseline of this case completed,
// so a later hang is attributable to the simulated dimension (DESIGN §3.4 rule 3).
func (cx *Ctx) BaselineDone() { rs.baselineOK.Store(true) }

// Exec counts one execution of real ojg code; Steps counts logical steps (reads, writes, sim points).
func (cx *Ctx) Exec()       { rs.executions++; rs.progress.Add(1) }
func (cx *Ctx) Steps(n int) { cx.steps += int64(n) }
func Probe(name string)     { rs.probes[name]++ }
func ProbeN(name string, n int) {
	if n > 0 {
		rs.probes[name] += int64(n)
	}
}
func Fault(kind string)     { rs.faults[kind]++ }
func Extra(k string, v any) { rs.extra[k] = v }
func Tier() string          { return rs.tier }
func Thorough() bool        { return rs.tier == "thorough" }

// Event appends a line to the determinism event log (only when VERIF_EVLOG is set).
func (cx *Ctx) Event(format string, args ...any) {
	if rs.evlog != nil {
		cx.events = append(cx.events, fmt.Sprintf(format, args...))
	}
}

func EventLogging() bool { return rs.evlog != nil }

// Lazy performs draws that happen in the middle of a run of real code (pool decisions, scheduler
// picks). rapid signals "bit-stream exhausted / attempt invalid" by panicking out of Draw; that
// panic must not unwind through the system under test (whose recover wrappers would swallow it and
// make the attempt look like a failure), so it is caught here, the run continues on default
// decisions (def), and finish re-raises it (DESIGN §3.4, unwinding rule 1).
func (cx *Ctx) Lazy(def int, draw func() int) (v int) {
	if cx.pending != nil {
		return def
	}
	defer func() {
		if p := recover(); p != nil {
			cx.pending = p
			v = def
		}
	}()
	return draw()
}

// Pending reports whether a lazy draw was aborted (the run is finishing on default decisions).
func (cx *Ctx) Pending() bool { return cx.pending != nil }

func (cx *Ctx) finish() {
	if cx.pending != nil {
		panic(cx.pending)
	}
	rs.cases++
	rs.steps += cx.steps
	var unknown *Failure
	nunknown := 0
	for i := range cx.failures {
		f := &cx.failures[i]
		matched := false
		for j := range rs.known {
			if rs.known[j].matches(f) {
				rs.knownHit[rs.known[j].What]++
				matched = true
				break
			}
		}
		if !matched {
			nunknown++
			if unknown == nil {
				unknown = f
			}
		}
	}
	if rs.evlog != nil {
		// (failures matching a known finding are not part of the log: some of them depend on Go's map order)
		h := fnv.New64a()
		h.Write(cx.key)
		fmt.Fprintf(rs.evlog, "case %d key=%016x nontrivial=%v unlisted_failures=%d\n", rs.cases, h.Sum64(), cx.nontrivial, nunknown)
		for _, e := range cx.events {
			rs.evlog.WriteString(e)
			rs.evlog.WriteByte('\n')
		}
	}
	if cx.nontrivial {
		rs.nontrivial++
		h := fnv.New64a()
		h.Write(cx.key)
		v := h.Sum64() % rs.bitmapBits
		rs.bitmap[v/64] |= 1 << (v % 64)
		if len(rs.samples) < 4 && cx.render != nil && (rs.nontrivial == 1 || rs.nontrivial == 10 || rs.nontrivial == 100 || rs.nontrivial == 1000) {
			rs.samples = append(rs.samples, cx.render())
		}
	}
	if unknown != nil && rs.survey != nil {
		// survey mode (triage aid): count every unlisted class, keep the smallest example, never fail
		for i := range cx.failures {
			f := &cx.failures[i]
			listed := false
			for j := range rs.known {
				if rs.known[j].matches(f) {
					listed = true
				}
			}
			if listed {
				continue
			}
			e := rs.survey[f.Class]
			if e == nil {
				e = &surveyEntry{}
				rs.survey[f.Class] = e
			}
			e.Count++
			if cx.render != nil && (e.Example == nil || len(cx.key) < e.keyLen) {
				e.Example = cx.render()
				e.Detail = f.Detail
				e.keyLen = len(cx.key)
			}
		}
		return
	}
	if unknown != nil {
		fr := &failRecord{Class: unknown.Class, Detail: unknown.Detail, Attrs: unknown.Attrs}
		if cx.render != nil {
			fr.Case = cx.render()
		}
		rs.lastFail = fr
		rs.viaCx = true
		cx.T.Fatalf("%s", unknown.Class)
	}
}

type result struct {
	Property   string                  `json:"property"`
	Status     string                  `json:"status"` // ok | violation | error
	Error      string                  `json:"error,omitempty"`
	Tier       string                  `json:"tier"`
	Seed       int64                   `json:"seed"`
	Shard      int                     `json:"shard"`
	Cases      int64                   `json:"cases"`
	Executions int64                   `json:"executions"`
	NonTrivial int64                   `json:"nontrivial"`
	Steps      int64                   `json:"steps"`
	Probes     map[string]int64        `json:"probes"`
	Faults     map[string]int64        `json:"faults"`
	KnownHit   map[string]int64        `json:"known_hit"`
	Samples    []any                   `json:"samples"`
	BitmapFile string                  `json:"bitmap_file"`
	BitmapBits uint64                  `json:"bitmap_bits"`
	Replay     string                  `json:"replay,omitempty"`
	Class      string                  `json:"class,omitempty"`
	Detail     string                  `json:"detail,omitempty"`
	WallS      float64                 `json:"wall_s"`
	Extra      map[string]any          `json:"extra,omitempty"`
	Survey     map[string]*surveyEntry `json:"survey,omitempty"`
}

func writeResult(status, errText string) {
	if rs.out == "" {
		return
	}
	r := result{
		Property: rs.prop, Status: status, Error: errText, Tier: rs.tier, Seed: rs.seed, Shard: rs.shard,
		Cases: rs.cases, Executions: rs.executions, NonTrivial: rs.nontrivial, Steps: rs.steps,
		Probes: rs.probes, Faults: rs.faults, KnownHit: rs.knownHit, Samples: rs.samples,
		BitmapBits: rs.bitmapBits, WallS: time.Since(rs.start).Seconds(), Extra: rs.extra, Survey: rs.survey,
	}
	bm := rs.out + ".bitmap"
	if f, err := os.Create(bm); err == nil {
		w := bufio.NewWriterSize(f, 1<<20)
		var b [8]byte
		for _, u := range rs.bitmap {
			for i := 0; i < 8; i++ {
				b[i] = byte(u >> (8 * i))
			}
			w.Write(b[:])
		}
		w.Flush()
		f.Close()
		r.BitmapFile = bm
	}
	if status == "violation" && rs.lastFail != nil {
		r.Class = rs.lastFail.Class
		r.Detail = rs.lastFail.Detail
		r.Replay = writeReplay()
	}
	js, _ := json.MarshalIndent(r, "", " ")
	os.WriteFile(rs.out, js, 0o644)
}

// writeReplay stores the shrunk failing case plus rapid's bit-stream (the exact replay input).
func writeReplay() string {
	if rs.replayDir == "" {
		return ""
	}
	os.MkdirAll(rs.replayDir, 0o755)
	// rapid has written testdata/rapid/<Test>/<Test>-*.fail below the cwd
	var failText string
	matches, _ := filepath.Glob(filepath.Join("testdata", "rapid", "*", "*.fail"))
	sort.Strings(matches)
	if len(matches) > 0 {
		b, _ := os.ReadFile(matches[len(matches)-1])
		var keep []string
		for _, l := range strings.Split(string(b), "\n") {
			if !strings.HasPrefix(l, "#") {
				keep = append(keep, l)
			}
		}
		failText = strings.Join(keep, "\n")
	}
	rep := map[string]any{
		"property":       rs.prop,
		"class":          rs.lastFail.Class,
		"detail":         rs.lastFail.Detail,
		"attrs":          rs.lastFail.Attrs,
		"seed":           rs.seed,
		"shard":          rs.shard,
		"tier":           rs.tier,
		"case":           rs.lastFail.Case,
		"rapid_failfile": failText,
		"replay":         "vcheck " + rs.prop + " --replay <this file>: re-executes the recorded bit-stream in a fresh process; must report the same class",
	}
	name := fmt.Sprintf("%s-seed%d-shard%d.json", rs.prop, rs.seed, rs.shard)
	path := filepath.Join(rs.replayDir, name)
	js, _ := json.MarshalIndent(rep, "", " ")
	os.WriteFile(path, js, 0o644)
	return path
}

// startWatchdog: a timer goroutine that trips when the case in progress makes no progress
// for VERIF_STALL_S seconds (default 20). A hang is a violation only when the case's
// non-simulated baseline had completed; otherwise it is a harness/infrastructure error.
func startWatchdog() {
	stall := time.Duration(envInt("VERIF_STALL_S", 20)) * time.Second
	go func() {
		last := rs.progress.Load()
		lastChange := time.Now()
		for {
			time.Sleep(500 * time.Millisecond)
			cur := rs.progress.Load()
			if cur != last {
				last = cur
				lastChange = time.Now()
				continue
			}
			if !rs.inCase.Load() || time.Since(lastChange) < stall {
				continue
			}
			var c any
			if f, ok := rs.caseRender.Load().(func() any); ok && f != nil {
				func() {
					defer func() { recover() }()
					c = f()
				}()
			}
			if rs.baselineOK.Load() {
				rs.lastFail = &failRecord{Class: rs.prop + "/hang", Detail: "no progress for " + stall.String() + " after the baseline execution of the same case completed", Case: c}
				rs.viaCx = true
				writeResult("violation", "")
			} else {
				writeResult("error", "watchdog: no progress and baseline not complete")
			}
			os.Exit(3)
		}
	}()
}

// Intn draws an int in [0,n) from the single choice source.
func Intn(t *rapid.T, n int, label string) int {
	if n <= 1 {
		return 0
	}
	return rapid.IntRange(0, n-1).Draw(t, label)
}

// Bool draws a boolean.
func Bool(t *rapid.T, label string) bool { return rapid.Bool().Draw(t, label) }

// Weighted draws an index with the given integer weights (index 0 is the shrink target).
func Weighted(t *rapid.T, label string, weights ...int) int {
	total := 0
	for _, w := range weights {
		total += w
	}
	v := Intn(t, total, label)
	for i, w := range weights {
		if v < w {
			return i
		}
		v -= w
	}
	return len(weights) - 1
}

// globMatch: '*' matches any run of characters (including '/'); everything else is literal.
func globMatch(pat, s string) bool {
	parts := strings.Split(pat, "*")
	if len(parts) == 1 {
		return pat == s
	}
	if !strings.HasPrefix(s, parts[0]) {
		return false
	}
	s = s[len(parts[0]):]
	for i := 1; i < len(parts)-1; i++ {
		j := strings.Index(s, parts[i])
		if j < 0 {
			return false
		}
		s = s[j+len(parts[i]):]
	}
	return strings.HasSuffix(s, parts[len(parts)-1])
}

// Declare registers probes and fault kinds with a zero count, so that one that is never hit
// shows up in the evidence (probes_never_hit) instead of being silently absent.
func Declare(probes []string, faults []string) {
	for _, p := range probes {
		if _, ok := rs.probes[p]; !ok {
			rs.probes[p] = 0
		}
	}
	for _, f := range faults {
		if _, ok := rs.faults[f]; !ok {
			rs.faults[f] = 0
		}
	}
}
