#include "textflag.h"

// func getg() unsafe.Pointer
TEXT ·getg(SB),NOSPLIT,$0-8
	MOVQ TLS, CX
	MOVQ 0(CX)(TLS*1), AX
	MOVQ AX, ret+0(FP)
	RET
