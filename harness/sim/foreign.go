package sim

import (
	"runtime"
	"sync"
	"sync/atomic"
	"syscall"
	"time"
)

// Goroutines started by the code under test.
//
// The library as it stands starts none: every Read and Write reaches the simulated stream on the goroutine of the
// call it was handed to, and the simulator decides everything. A change that moves I/O onto a goroutine of its own
// (read-ahead, background flush) creates a second party the simulator has to own as well. The seam is the stream:
// a reader that knows its caller (Own) recognises a Read that arrives on another goroutine and treats it as a read
// of a slow source whose delivery time the simulator picks:
//
//   - while the call is still running, the read is held back until the caller's goroutine is parked (the state is read
//     from the runtime): it then evidently waits for the data, and the read is served (nothing else can make progress);
//   - once the call has returned (it was abandoned: error, panic, early exit), the read is parked. It is served
//     later, right after the LateK-th following Read of any owned reader has completed - that is, in the middle of
//     a later call, which is when a real slow source would deliver - and the serving Read waits until the late
//     delivery is done, so that the order of the two is decided here and not by the Go scheduler.
//
// Whatever the late delivery damages shows up in the ordinary oracles of the check.
var (
	foreignMu sync.Mutex
	parked    []*lateRead
	nParked   int64

	// LateK is set per case by the check (a drawn value).
	LateK int

	ForeignReads int64
	LateReads    int64
)

type lateRead struct {
	release chan struct{}
	done    chan struct{}
	seen    int
}

func slowGoid() int64 {
	var b [32]byte
	n := runtime.Stack(b[:], false)
	// "goroutine 123 ["
	var id int64
	for i := len("goroutine "); i < n && b[i] >= '0' && b[i] <= '9'; i++ {
		id = id*10 + int64(b[i]-'0')
	}
	return id
}

// Own ties the reader to the calling goroutine: the call it is handed to runs here.
func (r *SimReader) Own() {
	r.ownerG = ThisG()
	r.owner = r.ownerG.id
	r.opDone = make(chan struct{})
}

// Done tells the reader that the call it was handed to has returned.
func (r *SimReader) Done() {
	if r.opDone != nil {
		select {
		case <-r.opDone:
		default:
			close(r.opDone)
		}
	}
}

func (r *SimReader) foreignRead(p []byte) (n int, err error) {
	foreignIO(r.ownerG, r.opDone, func() {
		r.mu.Lock()
		n, err = r.read(p, true)
		r.mu.Unlock()
	})
	return
}

// Own, Done and foreign Write calls of a writer: as for the reader (a background flush instead of a read-ahead).
func (w *SimWriter) Own() {
	w.ownerG = ThisG()
	w.owner = w.ownerG.id
	w.opDone = make(chan struct{})
}

func (w *SimWriter) Done() {
	if w.opDone != nil {
		select {
		case <-w.opDone:
		default:
			close(w.opDone)
		}
	}
}

func (w *SimWriter) foreignWrite(p []byte) (n int, err error) {
	foreignIO(w.ownerG, w.opDone, func() {
		w.mu.Lock()
		n, err = w.write(p)
		w.mu.Unlock()
	})
	return
}

// NCalls is len(Calls), safe to ask while a goroutine of the library may be writing.
func (w *SimWriter) NCalls() int {
	w.mu.Lock()
	defer w.mu.Unlock()
	return len(w.Calls)
}

func foreignIO(h GHandle, opDone chan struct{}, do func()) {
	owner := h.id
	atomic.AddInt64(&ForeignReads, 1)
	// While the call is running the read is held back until the caller's goroutine is parked (it waits for this
	// data, or for something that needs it: nothing else can make progress) - a state it cannot leave by itself, read
	// from the runtime, so that no clock is involved; if the call returns first, the read was abandoned.
	var stackBuf []byte
	served := false
	for spins := 0; !served; spins++ {
		select {
		case <-opDone:
			served = true
			continue
		default:
		}
		st := "running"
		if h.Parked() {
			st = "waiting"
		} else if !h.NotParked() {
			st, stackBuf = goroutineState(owner, stackBuf)
		}
		if st != "running" && st != "runnable" && st != "syscall" && st != "" {
			do()
			afterRead()
			return
		}
		runtime.Gosched()
		if spins > 2 {
			syscall.Syscall(syscall.SYS_SCHED_YIELD, 0, 0, 0)
		}
		if spins > 50000 {
			time.Sleep(50 * time.Microsecond)
		}
	}
	lr := &lateRead{release: make(chan struct{}), done: make(chan struct{})}
	foreignMu.Lock()
	parked = append(parked, lr)
	foreignMu.Unlock()
	atomic.AddInt64(&nParked, 1)
	<-lr.release
	do()
	atomic.AddInt64(&LateReads, 1)
	close(lr.done)
}

// afterRead runs when a Read of an owned reader has completed: parked late reads whose turn has come are served now.
func afterRead() {
	if atomic.LoadInt64(&nParked) == 0 {
		return
	}
	foreignMu.Lock()
	var rel []*lateRead
	keep := parked[:0]
	for _, lr := range parked {
		lr.seen++
		if lr.seen > LateK {
			rel = append(rel, lr)
		} else {
			keep = append(keep, lr)
		}
	}
	parked = keep
	foreignMu.Unlock()
	serve(rel)
}

func serve(rel []*lateRead) {
	for _, lr := range rel {
		close(lr.release)
		<-lr.done
		atomic.AddInt64(&nParked, -1)
	}
}

// ReleaseLate serves every parked read (end of a case) and books what happened (on the goroutine of the check: the
// counters of a run are not shared with goroutines of the library).
func ReleaseLate() {
	defer func() {
		if n := atomic.SwapInt64(&ForeignReads, 0); n > 0 {
			ProbeN("io_on_a_goroutine_of_the_library", int(n))
		}
		if n := atomic.SwapInt64(&LateReads, 0); n > 0 {
			for ; n > 0; n-- {
				Fault("late_delivery_after_abandoned_call")
			}
		}
	}()
	if atomic.LoadInt64(&nParked) == 0 {
		return
	}
	foreignMu.Lock()
	rel := parked
	parked = nil
	foreignMu.Unlock()
	serve(rel)
}
