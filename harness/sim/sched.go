package sim

import (
	"fmt"
	"hash/fnv"
	"os"
	"strings"
	"sync"

	vsync "github.com/ohler55/ojg/verifsync"

	"pgregory.net/rapid"
)

// Scheduled mode (DESIGN §3.4): N worker goroutines run real ojg calls but exactly one is
// runnable at any time; which one is the controller's (seeded) choice at every sim point. The
// hand-off goes over raw pipes from //go:norace code inside verifsync, so the race detector sees
// no happens-before edge from the scheduler and still reports every pair of conflicting accesses
// that the program's own synchronisation does not order.

// Event is one scheduling step: task was woken at the point it was parked at.
type Event struct {
	Task  int32
	Kind  int32
	Obj   int32
	Reply int32
}

var kindNames = map[int32]string{
	vsync.KStart: "start", vsync.KEnd: "end", vsync.KGet: "pool.Get", vsync.KPut: "pool.Put", vsync.KLock: "Lock", vsync.KUnlock: "Unlock",
	vsync.KRLock: "RLock", vsync.KRUnlock: "RUnlock", vsync.KOp: "op", vsync.KUser: "yield", vsync.KTryLock: "TryLock", vsync.KAtomic: "atomic",
}

func (e Event) String() string {
	return fmt.Sprintf("t%d:%s(%d)=%d", e.Task, kindNames[e.Kind], e.Obj, e.Reply)
}

type lockState struct {
	writer  int32 // -1 free
	readers int32
}

// SchedResult is what one scheduled run produced.
type SchedResult struct {
	Events      []Event
	Deadlock    bool
	SameTaskGet int // pool Get that handed a task the instance it had released itself
	CrossGet    int // pool Get that handed a task another task's released instance
	NewGet      int
	Drops       int
	LockWaits   int // a task had to wait for a lock held by another task
	Switches    int
}

// Hash of the event sequence: the measure of distinct interleavings.
func (r *SchedResult) Hash() uint64 {
	h := fnv.New64a()
	var b [16]byte
	for _, e := range r.Events {
		b[0], b[1], b[2], b[3] = byte(e.Task), byte(e.Kind), byte(e.Obj), byte(e.Obj>>8)
		b[4], b[5] = byte(e.Reply), byte(e.Reply>>8)
		h.Write(b[:6])
	}
	return h.Sum64()
}

func (r *SchedResult) Trace(max int) []string {
	var out []string
	for i, e := range r.Events {
		if i >= max {
			out = append(out, fmt.Sprintf("… %d more", len(r.Events)-max))
			break
		}
		out = append(out, e.String())
	}
	return out
}

// RunScheduled runs the task bodies to completion under the seeded scheduler. Worker panics
// must be handled inside the bodies (a body that panics out is recorded by the wrapper here as a
// violation of isolation by the caller).
func RunScheduled(cx *Ctx, bodies []func()) *SchedResult {
	n := len(bodies)
	if n > vsync.MaxTasks {
		panic("too many tasks")
	}
	vsync.OpenPipes()
	res := &SchedResult{}
	t := cx.T
	type taskState struct {
		live bool
		kind int32 // the point the task is parked at
		obj  int32
	}
	tasks := make([]taskState, n)
	locks := map[int32]*lockState{}
	lock := func(id int32) *lockState {
		l := locks[id]
		if l == nil {
			l = &lockState{writer: -1}
			locks[id] = l
		}
		return l
	}
	var wg sync.WaitGroup
	vsync.SetScheduled(true)
	for i := 0; i < n; i++ {
		tasks[i] = taskState{live: true, kind: vsync.KStart}
		wg.Add(1)
		go func(id int32, body func()) {
			defer wg.Done()
			vsync.TaskPark(id)
			defer vsync.TaskEnd()
			body()
		}(int32(i), bodies[i])
	}
	live := n
	last := int32(-1)
	lastKind := int32(0)
	for live > 0 {
		// enabled set
		var enabled []int32
		for i := range tasks {
			ts := &tasks[i]
			if !ts.live {
				continue
			}
			switch ts.kind {
			case vsync.KLock:
				l := lock(ts.obj)
				if l.writer >= 0 || l.readers > 0 {
					continue
				}
			case vsync.KRLock:
				if lock(ts.obj).writer >= 0 {
					continue
				}
			}
			enabled = append(enabled, int32(i))
		}
		if len(enabled) == 0 {
			res.Deadlock = true
			reportDeadlock(cx, res)
		}
		for i := range tasks {
			if tasks[i].live && (tasks[i].kind == vsync.KLock || tasks[i].kind == vsync.KRLock) {
				found := false
				for _, e := range enabled {
					if int(e) == i {
						found = true
					}
				}
				if !found {
					res.LockWaits++
				}
			}
		}
		// pick: every enabled task has weight; stay on the current task a bit more often, but
		// switch away preferably right after a Put or an Unlock and right before a Lock
		pick := enabled[0]
		if len(enabled) > 1 {
			weights := make([]int, len(enabled))
			for i, e := range enabled {
				w := 2
				if e == last {
					w = 4
					if lastKind == vsync.KPut || lastKind == vsync.KUnlock || tasks[e].kind == vsync.KLock || tasks[e].kind == vsync.KGet || tasks[e].kind == vsync.KAtomic {
						w = 1
					}
				}
				weights[i] = w
			}
			k := cx.Lazy(0, func() int { return Weighted(t, "sched", weights...) })
			pick = enabled[k]
		}
		if pick != last && last >= 0 {
			res.Switches++
		}
		ts := &tasks[pick]
		// decision / model update for the point the task is parked at
		reply := int32(0)
		switch ts.kind {
		case vsync.KGet:
			pn := vsync.PoolLen(int(ts.obj))
			reply = -1
			if pn > 0 {
				// alternatives in shrink order: k=0 the most recently released instance ... k=pn-1 the
				// oldest, k=pn a new one; instances released by another task are preferred
				weights := make([]int, pn+1)
				for k := 0; k < pn; k++ {
					w := 1
					if vsync.PoolPutter(int(ts.obj), pn-1-k) != int(pick) {
						w = 3
					}
					if k == 0 {
						w += 2
					}
					weights[k] = w
				}
				weights[pn] = 1
				k := cx.Lazy(0, func() int { return Weighted(t, "pool.get", weights...) })
				if k < pn {
					reply = int32(pn - 1 - k)
				}
			}
			switch {
			case reply < 0:
				res.NewGet++
			case vsync.PoolPutter(int(ts.obj), int(reply)) == int(pick):
				res.SameTaskGet++
			default:
				res.CrossGet++
			}
		case vsync.KPut:
			reply = 1
			if cx.Lazy(0, func() int { return Intn(t, 8, "pool.put") }) == 7 {
				reply = 0
				res.Drops++
			}
		case vsync.KLock:
			lock(ts.obj).writer = pick
		case vsync.KRLock:
			lock(ts.obj).readers++
		case vsync.KTryLock:
			l := lock(ts.obj)
			if l.writer < 0 && l.readers == 0 {
				l.writer = pick
				reply = 1
			}
		}
		res.Events = append(res.Events, Event{Task: pick, Kind: ts.kind, Obj: ts.obj, Reply: reply})
		lastKind = ts.kind
		last = pick
		vsync.CtlWake(pick, reply)
		task, kind, obj := vsync.CtlRecv()
		rs.progress.Add(1)
		if task != pick {
			panic(fmt.Sprintf("scheduler: woke task %d but task %d reported", pick, task))
		}
		// release-type events take effect when they are reported
		switch kind {
		case vsync.KEnd:
			tasks[task].live = false
			live--
		case vsync.KUnlock:
			lock(obj).writer = -1
		case vsync.KRUnlock:
			lock(obj).readers--
		}
		tasks[task].kind, tasks[task].obj = kind, obj
	}
	wg.Wait()
	vsync.SetScheduled(false)
	return res
}

func reportDeadlock(cx *Ctx, res *SchedResult) {
	var c any
	if cx.render != nil {
		c = cx.render()
	}
	rs.lastFail = &failRecord{Class: rs.prop + "/deadlock", Detail: "live tasks, none enabled: " + strings.Join(res.Trace(200), " "), Case: c}
	rs.viaCx = true
	writeResult("violation", "")
	os.Exit(3)
}

var _ = rapid.Bool
