package sim

import (
	"errors"
	"fmt"
	"io"
	"sort"
	"sync"

	"pgregory.net/rapid"
)

// Schedule is one delivery schedule of an io.Reader: where the byte string is cut into
// successive Read results, where zero-length reads are interposed, how EOF is signalled, and
// (fault configurations only) where a non-EOF error is returned.
type Schedule struct {
	Style       string `json:"style"`
	Cuts        []int  `json:"cuts"`            // sorted offsets in (0,len): a Read never crosses a cut
	Every       int    `json:"every,omitempty"` // >0: additionally cut every k bytes (k=1: byte-at-a-time)
	Zeros       []int  `json:"zeros,omitempty"` // offsets before which one (0,nil) read is returned
	EOFWithData bool   `json:"eof_with_data"`   // last bytes returned together with io.EOF
	FailAt      int    `json:"fail_at"`         // -1: never; else offset at which a non-EOF error is returned
	FailSticky  bool   `json:"fail_sticky,omitempty"`
	FailKind    int    `json:"fail_kind,omitempty"`      // which error value the failing Read returns (FailErrors)
	FailData    bool   `json:"fail_with_data,omitempty"` // the error comes together with the last bytes before FailAt
}

// ErrInjected is the sentinel non-EOF read/write error.
var ErrInjected = errors.New("verif: injected I/O error")

// hangPanic aborts an execution whose Read budget is exhausted.
type hangPanic struct{}

// SimReader serves data according to a Schedule and records what it did.
type SimReader struct {
	data     []byte
	s        *Schedule
	pos      int
	zeroDone map[int]bool
	failed   bool
	eofSent  bool
	Calls    int
	Budget   int
	Bounds   []int // offsets at which a Read result ended (the cuts that actually happened)
	Hung     bool
	FaultHit bool

	// set by Own: the reader knows the goroutine of the call it is handed to (foreign.go)
	owner  int64
	ownerG GHandle
	opDone chan struct{}
	mu     sync.Mutex
}

// FailErrors are the error values an injected reader failure may carry: what a front-end does must not depend
// on which non-EOF error it is (io.ErrUnexpectedEOF is what a truncated gzip stream or a short http body gives).
var FailErrors = []error{ErrInjected, io.ErrUnexpectedEOF, io.ErrClosedPipe, fmt.Errorf("verif: wrapped: %w", io.ErrUnexpectedEOF), io.ErrNoProgress}

func (s *Schedule) failErr() error { return FailErrors[s.FailKind%len(FailErrors)] }

func NewSimReader(data []byte, s *Schedule) *SimReader {
	return &SimReader{data: data, s: s, zeroDone: map[int]bool{}, Budget: 4*len(data) + 64}
}

func (r *SimReader) Read(p []byte) (int, error) {
	if r.owner != 0 {
		if goid() != r.owner {
			return r.foreignRead(p)
		}
		r.mu.Lock()
		n, err := r.read(p, false)
		r.mu.Unlock()
		afterRead()
		return n, err
	}
	return r.read(p, false)
}

func (r *SimReader) read(p []byte, foreign bool) (int, error) {
	r.Calls++
	if r.Calls > r.Budget {
		if foreign { // (a panic on a goroutine of the code under test would end the process)
			return 0, io.EOF
		}
		r.Hung = true
		panic(hangPanic{})
	}
	if r.s.FailAt >= 0 && r.pos >= r.s.FailAt && (!r.failed || r.s.FailSticky) {
		r.failed = true
		r.FaultHit = true
		return 0, r.s.failErr()
	}
	if r.pos >= len(r.data) {
		r.eofSent = true
		return 0, io.EOF
	}
	if len(p) == 0 {
		return 0, nil
	}
	if !r.zeroDone[r.pos] {
		i := sort.SearchInts(r.s.Zeros, r.pos)
		if i < len(r.s.Zeros) && r.s.Zeros[i] == r.pos {
			r.zeroDone[r.pos] = true
			return 0, nil
		}
	}
	end := len(r.data)
	i := sort.SearchInts(r.s.Cuts, r.pos+1)
	if i < len(r.s.Cuts) && r.s.Cuts[i] < end {
		end = r.s.Cuts[i]
	}
	if r.s.Every > 0 {
		if e := (r.pos/r.s.Every + 1) * r.s.Every; e < end {
			end = e
		}
	}
	if r.s.FailAt > r.pos && r.s.FailAt < end {
		end = r.s.FailAt
	}
	if end-r.pos > len(p) {
		end = r.pos + len(p)
	}
	n := copy(p, r.data[r.pos:end])
	r.pos = end
	if r.s.FailData && r.s.FailAt >= 0 && r.pos == r.s.FailAt && !r.failed && n > 0 {
		r.failed = true
		r.FaultHit = true
		return n, r.s.failErr()
	}
	if r.pos < len(r.data) {
		r.Bounds = append(r.Bounds, r.pos)
		return n, nil
	}
	if r.s.EOFWithData {
		r.eofSent = true
		return n, io.EOF
	}
	return n, nil
}

// Guard runs f, converting the reader's budget abort into hung=true and any other panic
// into a panic value.
func Guard(f func()) (panicked any, hung bool) {
	defer func() {
		if r := recover(); r != nil {
			if _, ok := r.(hangPanic); ok {
				hung = true
				return
			}
			panicked = r
		}
	}()
	f()
	return
}

// DrawSchedule draws one delivery schedule for an input of n bytes. interior lists offsets
// strictly inside tokens (from the reference tokenizer's span table) for targeted cuts.
func DrawSchedule(t *rapid.T, n int, interior []int) *Schedule {
	s := &Schedule{FailAt: -1}
	s.EOFWithData = Bool(t, "eofWithData")
	style := Weighted(t, "style", 2, 3, 3, 4, 5)
	switch style {
	case 0:
		s.Style = "full"
	case 1:
		s.Style = "bytewise"
		s.Every = 1
	case 2:
		s.Style = "every-k"
		s.Every = 2 + Intn(t, 7, "k")
	case 3:
		s.Style = "random"
		if n > 1 {
			cuts := rapid.SliceOfN(rapid.IntRange(1, n-1), 1, 12).Draw(t, "cuts")
			s.Cuts = normCuts(cuts, n)
		}
	case 4:
		s.Style = "targeted"
		if len(interior) > 0 {
			idx := rapid.SliceOfN(rapid.IntRange(0, len(interior)-1), 1, 6).Draw(t, "tcuts")
			cuts := make([]int, len(idx))
			for i, k := range idx {
				cuts[i] = interior[k]
			}
			s.Cuts = normCuts(cuts, n)
		} else if n > 1 {
			s.Cuts = []int{1 + Intn(t, n-1, "cut")}
		}
	}
	if n > 0 && Intn(t, 5, "zeros?") == 4 {
		z := rapid.SliceOfN(rapid.IntRange(0, n-1), 1, 3).Draw(t, "zeros")
		sort.Ints(z)
		s.Zeros = dedup(z)
	}
	return s
}

func normCuts(c []int, n int) []int {
	sort.Ints(c)
	c = dedup(c)
	out := c[:0]
	for _, v := range c {
		if v > 0 && v < n {
			out = append(out, v)
		}
	}
	return out
}

func dedup(a []int) []int {
	if len(a) == 0 {
		return a
	}
	out := a[:1]
	for _, v := range a[1:] {
		if v != out[len(out)-1] {
			out = append(out, v)
		}
	}
	return out
}

func (s *Schedule) String() string {
	if s.FailAt >= 0 {
		return fmt.Sprintf("%s cuts=%v every=%d zeros=%v eofWithData=%v failAt=%d failKind=%d failWithData=%v", s.Style, s.Cuts, s.Every, s.Zeros, s.EOFWithData, s.FailAt, s.FailKind, s.FailData)
	}
	return fmt.Sprintf("%s cuts=%v every=%d zeros=%v eofWithData=%v failAt=%d", s.Style, s.Cuts, s.Every, s.Zeros, s.EOFWithData, s.FailAt)
}

// ---------------------------------------------------------------- writer

// WriteRec is one Write call seen by a SimWriter.
type WriteRec struct {
	Off int
	Len int
}

// SimWriter records every Write call and, in fault configurations, fails the k-th call.
// It never returns n < len(p) with a nil error (that would be the writer breaking io.Writer).
type SimWriter struct {
	Buf      []byte
	Calls    []WriteRec
	FailCall int // -1: never; else 0-based index of the Write call that fails (and all later ones if Sticky)
	Sticky   bool
	Short    bool // the failing call accepts the first half of its bytes and reports that count with the error
	Full     bool // the failing call accepts all its bytes and reports the full count together with the error
	FaultHit bool

	// set by Own (foreign.go)
	owner  int64
	ownerG GHandle
	opDone chan struct{}
	mu     sync.Mutex
}

func NewSimWriter(failCall int) *SimWriter { return &SimWriter{FailCall: failCall} }

func (w *SimWriter) Write(p []byte) (int, error) {
	if w.owner != 0 {
		if goid() != w.owner {
			return w.foreignWrite(p)
		}
		w.mu.Lock()
		n, err := w.write(p)
		w.mu.Unlock()
		afterRead()
		return n, err
	}
	return w.write(p)
}

func (w *SimWriter) write(p []byte) (int, error) {
	k := len(w.Calls)
	w.Calls = append(w.Calls, WriteRec{Off: len(w.Buf), Len: len(p)})
	if w.FailCall >= 0 && (k == w.FailCall || (w.Sticky && k > w.FailCall)) {
		w.FaultHit = true
		if w.Full {
			w.Buf = append(w.Buf, p...)
			return len(p), ErrInjected
		}
		if w.Short && len(p) > 1 {
			w.Buf = append(w.Buf, p[:len(p)/2]...)
			return len(p) / 2, ErrInjected
		}
		return 0, ErrInjected
	}
	w.Buf = append(w.Buf, p...)
	return len(p), nil
}
