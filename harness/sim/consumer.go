package sim

import (
	"bytes"
	"runtime"
	"strconv"
	"syscall"
	"time"
)

// A result channel with a consumer the simulator owns.
//
// The parsers deliver the documents of a multi-document input to a `chan` argument. With a channel that has room for
// every document the call never waits and there is no second party; with a bounded (or unbuffered) channel there is
// one: the call blocks in a send until somebody receives. A Consumer is that somebody, and when it acts is not left to
// the Go scheduler: it runs on a goroutine of its own, watches the goroutine that makes the call, and takes a value at
// exactly one kind of instant - when that goroutine is parked in a channel send or a select (the state is read from the
// runtime; "parked in a send" and "returned" are the only two states the caller cannot leave by itself, so polling for
// them decides nothing). One value is taken per stall. When the call has returned (Finish), what sits in the channel's
// buffer is taken as well - and nothing else: a send that is still pending on some other goroutine was not delivered by
// the time the call returned, which is what the oracle has to see.
type Consumer[T any] struct {
	ch     chan T
	done   chan struct{}
	fin    chan struct{}
	got    []T
	stalls int
	ended  bool
}

// StartConsumer is called on the goroutine that is about to make the call.
func StartConsumer[T any](ch chan T) *Consumer[T] {
	c := &Consumer[T]{ch: ch, done: make(chan struct{}), fin: make(chan struct{})}
	h := ThisG()
	go c.run(h)
	return c
}

func (c *Consumer[T]) run(h GHandle) {
	id := h.id
	defer close(c.fin)
	var stackBuf []byte
	for spins := 0; ; spins++ {
		select {
		case <-c.done:
			for n := len(c.ch); n > 0; n-- {
				c.got = append(c.got, <-c.ch)
			}
			return
		default:
		}
		var parked bool
		if !h.NotParked() {
			parked, stackBuf = parkedInSend(id, stackBuf)
		}
		if parked {
			select {
			case v := <-c.ch:
				c.got = append(c.got, v)
				c.stalls++
				spins = 0
			default: // parked on some other channel: not ours to serve
			}
			continue
		}
		// give the caller the processor: the shard is pinned to one CPU, so first the Go scheduler's turn, then the kernel's
		// (a timer sleep costs about a millisecond here)
		runtime.Gosched()
		if spins > 2 {
			syscall.Syscall(syscall.SYS_SCHED_YIELD, 0, 0, 0)
		}
		if spins > 50000 {
			time.Sleep(50 * time.Microsecond)
		}
	}
}

// Finish is called when the call has returned (or was abandoned): the values received, in order, and how often the
// caller had to wait for the consumer. Idempotent.
func (c *Consumer[T]) Finish() (got []T, stalls int) {
	if !c.ended {
		c.ended = true
		close(c.done)
		<-c.fin
	}
	return c.got, c.stalls
}

// DrainStray empties what goroutines left behind by a (faulty) call still want to send, so that they can end. Clean-up
// after the verdict; nothing is judged here.
func DrainStray[T any](ch chan T) (n int) {
	for i := 0; i < 50; i++ {
		select {
		case <-ch:
			n++
			i = 0
		default:
			runtime.Gosched()
		}
	}
	return
}

// parkedInSend reports whether goroutine id is waiting in a channel send (or a select).
func parkedInSend(id int64, buf []byte) (bool, []byte) {
	st, buf := goroutineState(id, buf)
	return st == "chan send" || st == "select", buf
}

// goroutineState is the wait state of goroutine id as the runtime prints it ("running", "runnable", "chan send",
// "chan receive", "select", "semacquire", ...; "" if there is no such goroutine).
func goroutineState(id int64, buf []byte) (string, []byte) {
	if len(buf) == 0 {
		buf = make([]byte, 1<<16)
	}
	for {
		n := runtime.Stack(buf, true)
		if n < len(buf) {
			return stateOf(buf[:n], id), buf[:cap(buf)]
		}
		buf = make([]byte, 2*len(buf))
	}
}

func stateOf(dump []byte, id int64) string {
	head := append(strconv.AppendInt([]byte("goroutine "), id, 10), " ["...)
	for off := 0; off < len(dump); {
		i := bytes.Index(dump[off:], head)
		if i < 0 {
			return ""
		}
		i += off
		if i == 0 || dump[i-1] == '\n' {
			rest := dump[i+len(head):]
			j := bytes.IndexAny(rest, ",]")
			if j < 0 {
				return ""
			}
			return string(rest[:j])
		}
		off = i + len(head)
	}
	return ""
}

// GoidSelfTest compares the fast and the slow way of reading the goroutine id.
func GoidSelfTest() (fast, slow int64, off int) { return goid(), slowGoid(), goidOff }

// FastStateSelfTest: the offsets found at start-up (-1: the stack dump is used instead).
func FastStateSelfTest() (goidOffset, statusOffset int) { return goidOff, gstatusOff }
