module verif/harness

go 1.23

require (
	github.com/ohler55/ojg v0.0.0
	pgregory.net/rapid v1.3.0
)

replace github.com/ohler55/ojg => /repo
