package ref

import (
	"encoding/json"
	"fmt"
	"math"
	"math/big"
	"sort"
	"strconv"
	"strings"

	"github.com/ohler55/ojg/gen"
)

// Exact renders a value tree (simple or gen) into a canonical string that keeps the Go type
// of every leaf: the L1 equality of DESIGN §3.5 (same front-end, two delivery schedules).
// Maps are rendered in key order, so the result is independent of map iteration order.
func Exact(v any) string {
	var b strings.Builder
	exact(&b, v)
	return b.String()
}

func exact(b *strings.Builder, v any) {
	switch tv := v.(type) {
	case nil:
		b.WriteString("nil")
	case bool:
		fmt.Fprintf(b, "bool:%v", tv)
	case int64:
		fmt.Fprintf(b, "int64:%d", tv)
	case int:
		fmt.Fprintf(b, "int:%d", tv)
	case float64:
		fmt.Fprintf(b, "float64:%016x", math.Float64bits(tv))
	case string:
		fmt.Fprintf(b, "string:%q", tv)
	case json.Number:
		fmt.Fprintf(b, "json.Number:%q", string(tv))
	case []any:
		b.WriteString("[]any[")
		for i, e := range tv {
			if i > 0 {
				b.WriteByte(',')
			}
			exact(b, e)
		}
		b.WriteByte(']')
	case map[string]any:
		b.WriteString("map{")
		keys := make([]string, 0, len(tv))
		for k := range tv {
			keys = append(keys, k)
		}
		sort.Strings(keys)
		for i, k := range keys {
			if i > 0 {
				b.WriteByte(',')
			}
			fmt.Fprintf(b, "%q:", k)
			exact(b, tv[k])
		}
		b.WriteByte('}')
	case gen.Bool:
		fmt.Fprintf(b, "gen.Bool:%v", bool(tv))
	case gen.Int:
		fmt.Fprintf(b, "gen.Int:%d", int64(tv))
	case gen.Float:
		fmt.Fprintf(b, "gen.Float:%016x", math.Float64bits(float64(tv)))
	case gen.String:
		fmt.Fprintf(b, "gen.String:%q", string(tv))
	case gen.Big:
		fmt.Fprintf(b, "gen.Big:%q", string(tv))
	case gen.Array:
		b.WriteString("gen.Array[")
		for i, e := range tv {
			if i > 0 {
				b.WriteByte(',')
			}
			exact(b, e)
		}
		b.WriteByte(']')
	case gen.Object:
		b.WriteString("gen.Object{")
		keys := make([]string, 0, len(tv))
		for k := range tv {
			keys = append(keys, k)
		}
		sort.Strings(keys)
		for i, k := range keys {
			if i > 0 {
				b.WriteByte(',')
			}
			fmt.Fprintf(b, "%q:", k)
			exact(b, tv[k])
		}
		b.WriteByte('}')
	default:
		fmt.Fprintf(b, "%T:%v", v, v)
	}
}

// num is a number by class and exact content.
type num struct {
	class byte // 'i' int64, 'f' float64, 'b' big (decimal text)
	i     int64
	f     float64
	s     string
}

func asNum(v any) (num, bool) {
	switch tv := v.(type) {
	case int64:
		return num{class: 'i', i: tv}, true
	case int:
		return num{class: 'i', i: int64(tv)}, true
	case float64:
		return num{class: 'f', f: tv}, true
	case json.Number:
		return num{class: 'b', s: string(tv)}, true
	case gen.Int:
		return num{class: 'i', i: int64(tv)}, true
	case gen.Float:
		return num{class: 'f', f: float64(tv)}, true
	case gen.Big:
		return num{class: 'b', s: string(tv)}, true
	}
	return num{}, false
}

func ratOf(s string) *big.Rat {
	// guard against absurd exponents (the generators stay below 5 exponent digits)
	if i := strings.IndexAny(s, "eE"); i >= 0 && len(s)-i > 7 {
		return nil
	}
	r, ok := new(big.Rat).SetString(s)
	if !ok {
		return nil
	}
	return r
}

// numEqual: two numbers are the same value. int vs float: equal when the float is the float64
// nearest to that integer (both are representations the parsers may legitimately choose). float vs float: == (so -0 equals 0). big vs big: same rational. big vs float: the
// float is the float64 nearest to the decimal text. big vs int: the text denotes that integer.
func numEqual(a, b num) bool {
	if a.class > b.class {
		a, b = b, a
	}
	switch {
	case a.class == 'i' && b.class == 'i':
		return a.i == b.i
	case a.class == 'f' && b.class == 'f':
		return a.f == b.f
	case a.class == 'b' && b.class == 'b':
		if a.s == b.s {
			return true
		}
		ra, rb := ratOf(a.s), ratOf(b.s)
		return ra != nil && rb != nil && ra.Cmp(rb) == 0
	case a.class == 'f' && b.class == 'i': // a=f, b=i after ordering ('f' < 'i')
		return a.f == float64(b.i) // the float is the float64 nearest to the integer
	case a.class == 'b' && b.class == 'f':
		f, err := strconv.ParseFloat(a.s, 64)
		return err == nil && f == b.f
	case a.class == 'b' && b.class == 'i':
		ra := ratOf(a.s)
		return ra != nil && ra.IsInt() && ra.Num().IsInt64() && ra.Num().Int64() == b.i
	}
	return false
}

// SameValue is the L2 equality of DESIGN §3.5: equal structure, member names, strings and
// numeric values, across simple and gen representations. It returns the path of the first
// difference.
func SameValue(a, b any) (bool, string) {
	return sameValue(a, b, "$")
}

func kindOf(v any) byte {
	switch v.(type) {
	case nil:
		return 'n'
	case bool, gen.Bool:
		return 't'
	case string, gen.String:
		return 's'
	case []any, gen.Array:
		return 'a'
	case map[string]any, gen.Object:
		return 'o'
	}
	if _, ok := asNum(v); ok {
		return '#'
	}
	return '?'
}

func sameValue(a, b any, path string) (bool, string) {
	ka, kb := kindOf(a), kindOf(b)
	if ka != kb {
		return false, fmt.Sprintf("%s: %T vs %T", path, a, b)
	}
	switch ka {
	case 'n':
		return true, ""
	case 't':
		if asBool(a) != asBool(b) {
			return false, path + ": bool differs"
		}
	case 's':
		if asString(a) != asString(b) {
			return false, fmt.Sprintf("%s: %q vs %q", path, asString(a), asString(b))
		}
	case '#':
		na, _ := asNum(a)
		nb, _ := asNum(b)
		if !numEqual(na, nb) {
			return false, fmt.Sprintf("%s: number %T(%v) vs %T(%v)", path, a, a, b, b)
		}
	case 'a':
		aa, ab := asArray(a), asArray(b)
		if len(aa) != len(ab) {
			return false, fmt.Sprintf("%s: array length %d vs %d", path, len(aa), len(ab))
		}
		for i := range aa {
			if ok, p := sameValue(aa[i], ab[i], fmt.Sprintf("%s[%d]", path, i)); !ok {
				return false, p
			}
		}
	case 'o':
		oa, ob := asObject(a), asObject(b)
		if len(oa) != len(ob) {
			return false, fmt.Sprintf("%s: object size %d vs %d", path, len(oa), len(ob))
		}
		keys := make([]string, 0, len(oa))
		for k := range oa {
			keys = append(keys, k)
		}
		sort.Strings(keys)
		for _, k := range keys {
			vb, ok := ob[k]
			if !ok {
				return false, fmt.Sprintf("%s: key %q missing", path, k)
			}
			if ok, p := sameValue(oa[k], vb, fmt.Sprintf("%s[%q]", path, k)); !ok {
				return false, p
			}
		}
	default:
		if fmt.Sprintf("%T:%v", a, a) != fmt.Sprintf("%T:%v", b, b) {
			return false, fmt.Sprintf("%s: %T(%v) vs %T(%v)", path, a, a, b, b)
		}
	}
	return true, ""
}

func asBool(v any) bool {
	switch tv := v.(type) {
	case bool:
		return tv
	case gen.Bool:
		return bool(tv)
	}
	return false
}

func asString(v any) string {
	switch tv := v.(type) {
	case string:
		return tv
	case gen.String:
		return string(tv)
	}
	return ""
}

func asArray(v any) []any {
	switch tv := v.(type) {
	case []any:
		return tv
	case gen.Array:
		out := make([]any, len(tv))
		for i, e := range tv {
			out[i] = e
		}
		return out
	}
	return nil
}

func asObject(v any) map[string]any {
	switch tv := v.(type) {
	case map[string]any:
		return tv
	case gen.Object:
		out := make(map[string]any, len(tv))
		for k, e := range tv {
			out[k] = e
		}
		return out
	}
	return nil
}
