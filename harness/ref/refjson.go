// Package ref holds the independent reference models used as oracles (DESIGN §3.5).
package ref

// refjson: a byte-level RFC 8259 push-down recogniser written for this harness. It shares no
// code, table or constant with ojg. For any byte string (without BOM) it reports whether the
// string is exactly one JSON text surrounded by JSON whitespace, and otherwise the offset of
// the first byte after which the input can no longer be extended to a valid text (or len(b)
// when the text is merely incomplete). It also produces the token span table used to place
// targeted cuts.

type TokKind uint8

const (
	TString TokKind = iota + 1
	TKey
	TNumber
	TLiteral
	TPunct
	TSpace
)

type Span struct {
	Kind       TokKind
	Start, End int // [Start,End)
}

type Scan struct {
	Valid      bool // exactly one JSON text
	Empty      bool // only whitespace (or nothing): "no document"
	Incomplete bool // every byte is fine but the text is not finished
	ErrOff     int  // first offending byte, or len(b) when Incomplete; -1 when Valid or Empty
	Tokens     []Span
	MaxDepth   int
}

type state uint8

const (
	sValue    state = iota // expecting a value
	sArrFirst              // just after '[': value or ']'
	sObjFirst              // just after '{': key or '}'
	sObjKey                // after ',' in object: key
	sColon                 // after key: ':'
	sAfter                 // after a value: ',' or closer (or end at depth 0)
	sStr                   // inside a string
	sStrEsc                // after backslash
	sStrU                  // inside \uXXXX
	sNumNeg                // after '-'
	sNumZero               // after leading 0
	sNumInt                // in integer digits
	sNumDot                // after '.'
	sNumFrac               // in fraction digits
	sNumE                  // after e/E
	sNumESign              // after e+ / e-
	sNumExp                // in exponent digits
	sLit                   // inside true/false/null
	sDone                  // top-level value complete: only whitespace may follow
)

func isWS(c byte) bool    { return c == ' ' || c == '\t' || c == '\n' || c == '\r' }
func isDigit(c byte) bool { return '0' <= c && c <= '9' }
func isHex(c byte) bool {
	return isDigit(c) || ('a' <= c && c <= 'f') || ('A' <= c && c <= 'F')
}

// ScanJSON runs the recogniser over b.
func ScanJSON(b []byte) Scan {
	var (
		st       = sValue
		stack    []byte // '[' or '{'
		isKey    bool
		ucount   int
		lit      string
		litIdx   int
		tokStart int
		toks     []Span
		maxDepth int
		sawValue bool
		wsStart  = -1
	)
	fail := func(off int) Scan {
		return Scan{ErrOff: off, Tokens: toks, MaxDepth: maxDepth}
	}
	endValue := func() state {
		if len(stack) == 0 {
			sawValue = true
			return sDone
		}
		return sAfter
	}
	flushWS := func(i int) {
		if wsStart >= 0 {
			toks = append(toks, Span{TSpace, wsStart, i})
			wsStart = -1
		}
	}
	i := 0
	for i < len(b) {
		c := b[i]
		switch st {
		case sValue, sArrFirst, sObjFirst, sObjKey, sColon, sAfter, sDone:
			if isWS(c) {
				if wsStart < 0 {
					wsStart = i
				}
				i++
				continue
			}
			flushWS(i)
		}
		switch st {
		case sValue, sArrFirst:
			switch {
			case c == ']' && st == sArrFirst:
				toks = append(toks, Span{TPunct, i, i + 1})
				stack = stack[:len(stack)-1]
				st = endValue()
			case c == '[':
				toks = append(toks, Span{TPunct, i, i + 1})
				stack = append(stack, '[')
				if len(stack) > maxDepth {
					maxDepth = len(stack)
				}
				st = sArrFirst
			case c == '{':
				toks = append(toks, Span{TPunct, i, i + 1})
				stack = append(stack, '{')
				if len(stack) > maxDepth {
					maxDepth = len(stack)
				}
				st = sObjFirst
			case c == '"':
				tokStart, isKey, st = i, false, sStr
			case c == '-':
				tokStart, st = i, sNumNeg
			case c == '0':
				tokStart, st = i, sNumZero
			case '1' <= c && c <= '9':
				tokStart, st = i, sNumInt
			case c == 't':
				tokStart, lit, litIdx, st = i, "true", 1, sLit
			case c == 'f':
				tokStart, lit, litIdx, st = i, "false", 1, sLit
			case c == 'n':
				tokStart, lit, litIdx, st = i, "null", 1, sLit
			default:
				return fail(i)
			}
		case sObjFirst, sObjKey:
			switch {
			case c == '}' && st == sObjFirst:
				toks = append(toks, Span{TPunct, i, i + 1})
				stack = stack[:len(stack)-1]
				st = endValue()
			case c == '"':
				tokStart, isKey, st = i, true, sStr
			default:
				return fail(i)
			}
		case sColon:
			if c != ':' {
				return fail(i)
			}
			toks = append(toks, Span{TPunct, i, i + 1})
			st = sValue
		case sAfter:
			top := stack[len(stack)-1]
			switch {
			case c == ',':
				toks = append(toks, Span{TPunct, i, i + 1})
				if top == '{' {
					st = sObjKey
				} else {
					st = sValue
				}
			case c == ']' && top == '[', c == '}' && top == '{':
				toks = append(toks, Span{TPunct, i, i + 1})
				stack = stack[:len(stack)-1]
				st = endValue()
			default:
				return fail(i)
			}
		case sDone:
			return fail(i)
		case sStr:
			switch {
			case c == '"':
				k := TString
				if isKey {
					k = TKey
				}
				toks = append(toks, Span{k, tokStart, i + 1})
				if isKey {
					st = sColon
				} else {
					st = endValue()
				}
			case c == '\\':
				st = sStrEsc
			case c < 0x20:
				return fail(i)
			}
		case sStrEsc:
			switch c {
			case '"', '\\', '/', 'b', 'f', 'n', 'r', 't':
				st = sStr
			case 'u':
				ucount, st = 0, sStrU
			default:
				return fail(i)
			}
		case sStrU:
			if !isHex(c) {
				return fail(i)
			}
			ucount++
			if ucount == 4 {
				st = sStr
			}
		case sNumNeg:
			switch {
			case c == '0':
				st = sNumZero
			case '1' <= c && c <= '9':
				st = sNumInt
			default:
				return fail(i)
			}
		case sNumZero, sNumInt, sNumFrac, sNumExp:
			switch {
			case isDigit(c) && st != sNumZero:
				// stay
			case c == '.' && (st == sNumZero || st == sNumInt):
				st = sNumDot
			case (c == 'e' || c == 'E') && st != sNumExp:
				st = sNumE
			default:
				// the number ends before this byte; re-dispatch the byte after the value
				toks = append(toks, Span{TNumber, tokStart, i})
				st = endValue()
				continue
			}
		case sNumDot:
			if !isDigit(c) {
				return fail(i)
			}
			st = sNumFrac
		case sNumE:
			switch {
			case c == '+' || c == '-':
				st = sNumESign
			case isDigit(c):
				st = sNumExp
			default:
				return fail(i)
			}
		case sNumESign:
			if !isDigit(c) {
				return fail(i)
			}
			st = sNumExp
		case sLit:
			if c != lit[litIdx] {
				return fail(i)
			}
			litIdx++
			if litIdx == len(lit) {
				toks = append(toks, Span{TLiteral, tokStart, i + 1})
				st = endValue()
			}
		}
		i++
	}
	flushWS(len(b))
	switch st {
	case sNumZero, sNumInt, sNumFrac, sNumExp:
		toks = append(toks, Span{TNumber, tokStart, len(b)})
		st = endValue()
	}
	switch {
	case st == sDone:
		return Scan{Valid: true, ErrOff: -1, Tokens: toks, MaxDepth: maxDepth}
	case st == sValue && len(stack) == 0 && !sawValue:
		return Scan{Empty: true, ErrOff: -1, Tokens: toks}
	default:
		return Scan{Incomplete: true, ErrOff: len(b), Tokens: toks, MaxDepth: maxDepth}
	}
}

// LineCol converts a byte offset into the property's (line, column): 1-based, lines end at
// '\n', columns count bytes; off may equal len(b) (one past the last byte).
func LineCol(b []byte, off int) (line, col int) {
	line = 1
	last := -1
	for i := 0; i < off && i < len(b); i++ {
		if b[i] == '\n' {
			line++
			last = i
		}
	}
	return line, off - last
}

// Interior lists offsets strictly inside multi-byte tokens (cut candidates), capped.
func Interior(toks []Span, max int) []int {
	var out []int
	for _, t := range toks {
		if t.Kind == TPunct {
			continue
		}
		for o := t.Start + 1; o < t.End; o++ {
			out = append(out, o)
			if len(out) >= max {
				return out
			}
		}
	}
	return out
}
