// Package gens holds the seeded generators: JSON/SEN text, value trees, paths, the type zoo.
// Every choice is a draw from the rapid bit-stream (the single choice source), ordered so that
// index 0 / size 0 is the simplest alternative (rapid shrinks towards it).
package gens

import (
	"fmt"
	"strings"

	"pgregory.net/rapid"

	"verif/harness/sim"
)

var specialInts = []string{
	"0", "1", "7", "10", "-1", "-0", "123", "2147483648", "4294967296",
	"922337203685477580", "922337203685477581", "922337203685477579",
	"9223372036854775807", "9223372036854775808", "9223372036854775806", "9223372036854775799",
	"-9223372036854775808", "-9223372036854775809", "-9223372036854775807",
	"18446744073709551615", "18446744073709551616", "92233720368547758070",
	"1000000000000000000", "999999999999999999", "9999999999999999999", "10000000000000000000",
	"9007199254740993", "123456789012345678901234567890",
}

var wsChoices = []string{"", "", "", " ", "\n", "  ", "\t", "\r\n", "\n  ", " \n", "\n\n", "\r", " \t \n "}

func digits(t *rapid.T, min, max int, label string) string {
	n := min + sim.Intn(t, max-min+1, label+"#")
	var b strings.Builder
	for i := 0; i < n; i++ {
		b.WriteByte(byte('0' + sim.Intn(t, 10, label)))
	}
	return b.String()
}

// Number draws a JSON number literal of every shape the property lists.
func Number(t *rapid.T) string {
	var b strings.Builder
	kind := sim.Weighted(t, "numkind", 4, 3, 3, 3, 2, 1)
	switch kind {
	case 5: // far beyond every accumulator: the textual big-number path with a growing buffer
		if sim.Intn(t, 3, "neg") == 2 {
			b.WriteByte('-')
		}
		b.WriteByte(byte('1' + sim.Intn(t, 9, "lead")))
		b.WriteString(strings.Repeat(digits(t, 1, 9, "d"), 3+sim.Intn(t, 40, "rep")))
		if sim.Bool(t, "hugefrac") {
			b.WriteByte('.')
			b.WriteString(strings.Repeat(digits(t, 1, 9, "f"), 1+sim.Intn(t, 40, "rep")))
		}
		if sim.Intn(t, 3, "hugeexp") == 2 {
			b.WriteString([]string{"e", "E-", "e+"}[sim.Intn(t, 3, "e")])
			b.WriteString(digits(t, 1, 4, "e"))
		}
		return b.String()
	case 0: // small int
		if sim.Intn(t, 4, "neg") == 3 {
			b.WriteByte('-')
		}
		b.WriteString(fmt.Sprint(sim.Intn(t, 1000, "small")))
		return b.String()
	case 1: // special int
		return specialInts[sim.Intn(t, len(specialInts), "special")]
	case 2: // random digit string 1..25
		if sim.Intn(t, 4, "neg") == 3 {
			b.WriteByte('-')
		}
		b.WriteByte(byte('1' + sim.Intn(t, 9, "lead")))
		b.WriteString(digits(t, 0, 24, "d"))
		return b.String()
	}
	// fraction and/or exponent
	if sim.Intn(t, 4, "neg") == 3 {
		b.WriteByte('-')
	}
	switch sim.Intn(t, 3, "ipart") {
	case 0:
		b.WriteByte('0')
	case 1:
		b.WriteString(fmt.Sprint(1 + sim.Intn(t, 999, "small")))
	default:
		if sim.Bool(t, "special") {
			s := specialInts[sim.Intn(t, len(specialInts), "special")]
			b.WriteString(strings.TrimPrefix(s, "-"))
		} else {
			b.WriteByte(byte('1' + sim.Intn(t, 9, "lead")))
			b.WriteString(digits(t, 0, 20, "d"))
		}
	}
	hasFrac := kind == 3 || sim.Bool(t, "frac")
	if hasFrac {
		b.WriteByte('.')
		switch sim.Intn(t, 4, "fkind") {
		case 0:
			b.WriteString(digits(t, 1, 3, "f"))
		case 1:
			b.WriteString(strings.Repeat("0", sim.Intn(t, 6, "lz")))
			b.WriteString(digits(t, 1, 20, "f"))
		case 2:
			b.WriteString(digits(t, 15, 25, "f"))
		default:
			b.WriteString(digits(t, 1, 4, "f"))
			b.WriteString(strings.Repeat("0", sim.Intn(t, 4, "tz")))
		}
	}
	if kind == 4 || !hasFrac || sim.Intn(t, 3, "exp") == 2 {
		b.WriteByte("eE"[sim.Intn(t, 2, "e")])
		b.WriteString([]string{"", "+", "-"}[sim.Intn(t, 3, "esign")])
		switch sim.Intn(t, 4, "ekind") {
		case 0:
			b.WriteString(fmt.Sprint(sim.Intn(t, 20, "e")))
		case 1:
			b.WriteString(fmt.Sprint(300 + sim.Intn(t, 30, "e")))
		case 2:
			b.WriteString(fmt.Sprint(1015 + sim.Intn(t, 15, "e")))
		default:
			b.WriteString(strings.Repeat("0", sim.Intn(t, 3, "ez")))
			b.WriteString(digits(t, 1, 4, "e"))
		}
	}
	return b.String()
}

var plainChars = []byte("abcxyz ABZ019_-.,:;!#$%&'()*+<=>?@[]^`{|}~/")
var simpleEsc = []string{`\"`, `\\`, `\/`, `\b`, `\f`, `\n`, `\r`, `\t`}
var hexDigits = "0123456789abcdefABCDEF"

// StringBody draws the inside of a JSON string (no surrounding quotes).
func StringBody(t *rapid.T, maxPieces int) string {
	n := sim.Intn(t, maxPieces+1, "slen")
	var b strings.Builder
	for i := 0; i < n; i++ {
		switch sim.Weighted(t, "piece", 8, 2, 2, 1, 1, 1, 1) {
		case 0:
			b.WriteByte(plainChars[sim.Intn(t, len(plainChars), "ch")])
		case 1:
			b.WriteString(simpleEsc[sim.Intn(t, len(simpleEsc), "esc")])
		case 2: // \uXXXX, any class
			b.WriteString(`\u`)
			switch sim.Intn(t, 5, "uclass") {
			case 0:
				b.WriteString("00")
				b.WriteByte(hexDigits[sim.Intn(t, 8, "h")])
				b.WriteByte(hexDigits[sim.Intn(t, 22, "h")])
			case 1: // high surrogate (maybe followed by a low one)
				b.WriteString([]string{"d83d", "D800", "dBff", "d834"}[sim.Intn(t, 4, "hs")])
				if sim.Bool(t, "pair") {
					b.WriteString(`\u`)
					b.WriteString([]string{"de00", "DC00", "dfFF", "dd1e"}[sim.Intn(t, 4, "ls")])
				}
			case 2: // lone low surrogate
				b.WriteString([]string{"dc00", "DFFF"}[sim.Intn(t, 2, "ls")])
			default:
				for k := 0; k < 4; k++ {
					b.WriteByte(hexDigits[sim.Intn(t, 22, "h")])
				}
			}
		case 3: // valid multi-byte UTF-8
			b.WriteString([]string{"\u00e9", "\u00fc", "\u3074", "\u20ac", "\U0001F600", "\u2028", "\u2029", "\u00a0"}[sim.Intn(t, 8, "utf8")])
		case 4: // raw high bytes, possibly invalid UTF-8
			b.WriteByte(byte(0x80 + sim.Intn(t, 128, "hi")))
		case 5:
			b.WriteByte(0x7f)
		default:
			b.WriteString([]string{"null", "true", "//", "/*", "\\\\", "\\\"", "'"}[sim.Intn(t, 7, "word")])
		}
	}
	return b.String()
}

var keyPool = []string{"a", "b", "", "k", "key", "a", "x y", "\\u0061", "\\n", "é"}

func ws(t *rapid.T, b *strings.Builder) {
	b.WriteString(wsChoices[sim.Intn(t, len(wsChoices), "ws")])
}

// Value writes one JSON value (with interior whitespace) into b.
func Value(t *rapid.T, b *strings.Builder, depth int) {
	max := 7
	if depth <= 0 {
		max = 5
	}
	switch sim.Intn(t, max, "vkind") {
	case 0:
		b.WriteString(Number(t))
	case 1:
		b.WriteByte('"')
		b.WriteString(StringBody(t, 8))
		b.WriteByte('"')
	case 2:
		b.WriteString("null")
	case 3:
		b.WriteString("true")
	case 4:
		b.WriteString("false")
	case 5:
		b.WriteByte('[')
		ws(t, b)
		n := sim.Intn(t, 5, "alen")
		for i := 0; i < n; i++ {
			if i > 0 {
				b.WriteByte(',')
				ws(t, b)
			}
			Value(t, b, depth-1)
			ws(t, b)
		}
		b.WriteByte(']')
	default:
		b.WriteByte('{')
		ws(t, b)
		n := sim.Intn(t, 4, "olen")
		for i := 0; i < n; i++ {
			if i > 0 {
				b.WriteByte(',')
				ws(t, b)
			}
			b.WriteByte('"')
			if sim.Intn(t, 3, "keykind") < 2 {
				b.WriteString(keyPool[sim.Intn(t, len(keyPool), "key")])
			} else {
				b.WriteString(StringBody(t, 5))
			}
			b.WriteByte('"')
			ws(t, b)
			b.WriteByte(':')
			ws(t, b)
			Value(t, b, depth-1)
			ws(t, b)
		}
		b.WriteByte('}')
	}
}

// Doc draws one valid JSON document with optional surrounding whitespace. One document in
// sixteen is "big": nested deeper than the parsers' initial stacks (32), or carrying a string or
// an array long enough to outgrow the initial scratch buffers and to cross 4096-byte refills.
func Doc(t *rapid.T, depth int) []byte {
	var b strings.Builder
	ws(t, &b)
	if k := sim.Intn(t, 16, "bigdoc"); k == 15 {
		Big(t, &b)
	} else if k == 14 {
		Sized(t, &b)
	} else {
		Value(t, &b, depth)
	}
	ws(t, &b)
	return []byte(b.String())
}

// Sized writes a document one of whose dimensions - nesting depth, number of objects, number of elements or
// members, string / key / number length - is exactly a power of two between 8 and 2048, or one less, or one more:
// the sizes at which initial capacities, tables and pools of the code under test run out.
func Sized(t *rapid.T, b *strings.Builder) {
	n := (8 << uint(sim.Intn(t, 9, "pow"))) + sim.Intn(t, 3, "delta") - 1
	switch sim.Intn(t, 8, "dim") {
	case 0: // depth, arrays
		b.WriteString(strings.Repeat("[", n))
		b.WriteString("1")
		b.WriteString(strings.Repeat("]", n))
	case 1: // depth, objects and arrays alternating
		for i := 0; i < n; i++ {
			if i%2 == 0 {
				b.WriteString(`{"a":`)
			} else {
				b.WriteString("[")
			}
		}
		b.WriteString("null")
		for i := n - 1; i >= 0; i-- {
			if i%2 == 0 {
				b.WriteString("}")
			} else {
				b.WriteString("]")
			}
		}
	case 2: // number of objects in one document (the first and the last with members)
		b.WriteByte('[')
		for i := 0; i < n; i++ {
			if i > 0 {
				b.WriteByte(',')
			}
			if i == 0 || i == n-1 || i%5 == 0 {
				fmt.Fprintf(b, `{"i":%d}`, i)
			} else {
				b.WriteString("{}")
			}
		}
		b.WriteByte(']')
	case 3: // number of elements
		b.WriteByte('[')
		for i := 0; i < n; i++ {
			if i > 0 {
				b.WriteByte(',')
			}
			fmt.Fprint(b, i%10)
		}
		b.WriteByte(']')
	case 4: // number of members
		b.WriteByte('{')
		for i := 0; i < n; i++ {
			if i > 0 {
				b.WriteByte(',')
			}
			fmt.Fprintf(b, `"m%d":%d`, i, i%3)
		}
		b.WriteByte('}')
	case 5: // string length (with an escape in front, or at the end, or none)
		body := strings.Repeat("s", n)
		switch sim.Intn(t, 3, "esc") {
		case 1:
			body = `\n` + body[min(2, len(body)):]
		case 2:
			body = body[:max(0, len(body)-6)] + `\u0041`
		}
		fmt.Fprintf(b, `["%s",1]`, body)
	case 6: // key length
		fmt.Fprintf(b, `{"%s":true,"b":[{"%s":null}]}`, strings.Repeat("k", n), strings.Repeat("q", n))
	default: // number of digits (integer, fraction, or both)
		d := strings.Repeat("7", min(n, 400))
		switch sim.Intn(t, 3, "numpart") {
		case 0:
			fmt.Fprintf(b, `[%s]`, d)
		case 1:
			fmt.Fprintf(b, `[0.%s]`, d)
		default:
			fmt.Fprintf(b, `[%s.%se1]`, d, d)
		}
	}
}

// Big writes a deep, long-string or long-array document.
func Big(t *rapid.T, b *strings.Builder) {
	switch sim.Intn(t, 4, "bigkind") {
	case 0: // deep nesting
		d := 20 + sim.Intn(t, 70, "bigdepth")
		var closers []byte
		for i := 0; i < d; i++ {
			if sim.Intn(t, 3, "objlevel") == 2 {
				b.WriteString(`{"`)
				b.WriteString(keyPool[sim.Intn(t, len(keyPool), "key")])
				b.WriteString(`":`)
				closers = append(closers, '}')
			} else {
				b.WriteByte('[')
				if sim.Intn(t, 4, "sibling") == 3 {
					b.WriteString("1,")
				}
				closers = append(closers, ']')
			}
		}
		Value(t, b, 1)
		for i := len(closers) - 1; i >= 0; i-- {
			ws(t, b)
			b.WriteByte(closers[i])
		}
	case 1: // long string with escapes, repeated body
		body := StringBody(t, 10)
		if body == "" {
			body = `a
b`
		}
		n := 1 + sim.Intn(t, 900, "rep")
		b.WriteString(`["`)
		for i := 0; i < n; i++ {
			b.WriteString(body)
		}
		b.WriteString(`",`)
		Value(t, b, 1)
		b.WriteByte(']')
	case 2: // long array of short values
		n := 50 + sim.Intn(t, 1200, "n")
		var el strings.Builder
		Value(t, &el, 0)
		b.WriteByte('[')
		for i := 0; i < n; i++ {
			if i > 0 {
				b.WriteByte(',')
			}
			b.WriteString(el.String())
			if i%97 == 96 {
				b.WriteByte('\n')
			}
		}
		b.WriteByte(']')
	default: // object with many members
		n := 10 + sim.Intn(t, 300, "n")
		b.WriteByte('{')
		for i := 0; i < n; i++ {
			if i > 0 {
				b.WriteByte(',')
			}
			if i%11 == 10 {
				b.WriteString(`"` + strings.Repeat("long_key_", 4+i%9) + fmt.Sprint(i) + `\u0041":`)
			} else {
				b.WriteString(fmt.Sprintf(`"k%d":`, i%(1+n/2)))
			}
			if i%7 == 0 {
				Value(t, b, 1)
			} else {
				b.WriteString(fmt.Sprint(i))
			}
		}
		b.WriteByte('}')
	}
}

var interesting = []byte("{}[],:\"\\0123456789.eE+-tfnulrasx \n\t\r/'")

// Mutate applies one near-valid mutation (truncate / flip / insert / delete / swap closer).
func Mutate(t *rapid.T, in []byte) []byte {
	if len(in) == 0 {
		return in
	}
	out := append([]byte(nil), in...)
	pos := sim.Intn(t, len(out), "mpos")
	pick := func() byte {
		if sim.Intn(t, 6, "anybyte") == 5 {
			return byte(sim.Intn(t, 256, "byte"))
		}
		return interesting[sim.Intn(t, len(interesting), "ibyte")]
	}
	switch sim.Intn(t, 7, "mkind") {
	case 5: // neighbour: the byte next to the original one (off-by-one ends of the byte classes in the tables)
		if sim.Bool(t, "up") {
			out[pos]++
		} else {
			out[pos]--
		}
		return out
	case 6: // a byte just outside a class, written over a byte inside a token of that class when there is one
		for i := 0; i < len(out); i++ {
			p := (pos + i) % len(out)
			c := out[p]
			switch {
			case '0' <= c && c <= '9':
				out[p] = "/:"[sim.Intn(t, 2, "edge")]
				return out
			case 'a' <= c && c <= 'f' || 'A' <= c && c <= 'F':
				out[p] = "`g@G"[sim.Intn(t, 4, "edge")]
				return out
			}
		}
		return out[:pos]
	case 0: // truncate
		return out[:pos]
	case 1: // flip
		out[pos] = pick()
		return out
	case 2: // insert
		out = append(out, 0)
		copy(out[pos+1:], out[pos:])
		out[pos] = pick()
		return out
	case 3: // delete
		return append(out[:pos], out[pos+1:]...)
	default: // swap a closer
		for i := pos; i < len(out); i++ {
			switch out[i] {
			case ']':
				out[i] = '}'
				return out
			case '}':
				out[i] = ']'
				return out
			}
		}
		return out[:pos]
	}
}

// Multi draws a stream of 0..4 documents with separators that may be empty.
func Multi(t *rapid.T, depth int) []byte {
	n := sim.Intn(t, 5, "ndocs")
	var b strings.Builder
	ws(t, &b)
	for i := 0; i < n; i++ {
		Value(t, &b, depth)
		b.WriteString([]string{" ", "\n", "", "  ", "\r\n", "\t"}[sim.Intn(t, 6, "sep")])
	}
	return []byte(b.String())
}

// PadTo prefixes doc so that byte offset `at` of doc lands exactly on offset k*4096 of the
// result. The padding is JSON whitespace (spaces and newlines) or a leading array of small
// elements wrapped around doc; it returns the new input and the shift applied to offsets.
func PadTo(t *rapid.T, doc []byte, at int, multi bool) ([]byte, int) {
	k := 1 + sim.Intn(t, 2, "pad4096k")
	target := k * 4096
	style := sim.Intn(t, 3, "padstyle")
	if multi && style == 2 {
		style = 1
	}
	switch style {
	case 0: // whitespace with newlines every so often
		pad := target - at
		if pad < 0 {
			pad = 0
		}
		var b strings.Builder
		period := 1 + sim.Intn(t, 97, "nlperiod")
		for i := 0; i < pad; i++ {
			if i%period == period-1 {
				b.WriteByte('\n')
			} else {
				b.WriteByte(' ')
			}
		}
		b.Write(doc)
		return []byte(b.String()), pad
	case 1: // a long string document or element first
		// ["aaaa…", doc]   (single)   or   "aaaa…" doc   (multi)
		var b strings.Builder
		overhead := 4 // [" ... ",
		if multi {
			overhead = 3 // " ... " + space
		}
		fill := target - at - overhead
		if fill < 0 {
			fill = 0
		}
		if multi {
			b.WriteByte('"')
			b.WriteString(strings.Repeat("a", fill))
			b.WriteString("\" ")
		} else {
			b.WriteString("[\"")
			b.WriteString(strings.Repeat("a", fill))
			b.WriteString("\",")
		}
		shift := b.Len()
		b.Write(doc)
		if !multi {
			b.WriteByte(']')
		}
		return []byte(b.String()), shift
	default: // [1,1,1,…,doc]
		var b strings.Builder
		b.WriteByte('[')
		for b.Len()+2 <= target-at {
			b.WriteString("1,")
		}
		for b.Len() < target-at {
			b.WriteByte(' ')
		}
		shift := b.Len()
		b.Write(doc)
		b.WriteByte(']')
		return []byte(b.String()), shift
	}
}
