package gens

import (
	"strings"

	"pgregory.net/rapid"

	"verif/harness/sim"
)

var tokStart = []byte("abcxyzTNF_^.~")
var tokCont = []byte("abcxyz_^.~019-")
var senWords = []string{"a", "abc", "nul", "nulls", "tru", "truex", "fals", "null_", "x-1", "_", "^a", ".x", "t", "n", "f", "é", "ünï"}

func senToken(t *rapid.T) string {
	if sim.Intn(t, 12, "longtoken") == 11 {
		// longer than the parsers' initial scratch buffer (32 bytes)
		n := 33 + sim.Intn(t, 120, "longlen")
		var b strings.Builder
		b.WriteByte(tokStart[sim.Intn(t, len(tokStart), "ts")])
		seed := sim.Intn(t, len(tokCont), "tc")
		for i := 1; i < n; i++ {
			b.WriteByte(tokCont[(seed+i*7)%len(tokCont)])
		}
		return b.String()
	}
	if sim.Intn(t, 10, "unitoken") == 9 {
		// letters beyond ASCII (sen.md: U+0080 and up), among them lead bytes 0xEF (U+F000..U+FFFF; not 0xEF 0xBB,
		// which the []byte entry points take for a damaged BOM - pinned by the repo's tests)
		return []string{"é", "été", "日本", "ａbc", "ａ", "\uf8ffx", "ｘ1", "x日", "üb-c", "\uffee", "ａｂｃｄ"}[sim.Intn(t, 11, "uni")]
	}
	if sim.Bool(t, "word") {
		return senWords[sim.Intn(t, len(senWords), "w")]
	}
	var b strings.Builder
	b.WriteByte(tokStart[sim.Intn(t, len(tokStart), "ts")])
	n := sim.Intn(t, 8, "tlen")
	for i := 0; i < n; i++ {
		b.WriteByte(tokCont[sim.Intn(t, len(tokCont), "tc")])
	}
	return b.String()
}

var senFuncNames = []string{"ISODate", "ObjectId", "NumberLong", "NumberDecimal", "fn", "x1"}
var senFuncArgs = []string{`"2021-06-28T10:11:12Z"`, `"123"`, `1624875072123`, `"9223372036854775807"`, `abc`, `"1.5"`, `[1 2]`, `null`}

type senGen struct {
	t        *rapid.T
	ext      bool // parser extensions used (outside sen.md)
	allowExt bool
	nested   int
}

func (g *senGen) sep(b *strings.Builder) {
	switch sim.Intn(g.t, 12, "sep") {
	case 8:
		b.WriteByte('\t')
	case 9:
		b.WriteString("\r\n")
	case 10:
		b.WriteString("\t,\t")
	case 11:
		b.WriteString(" \r")
	case 0:
		b.WriteByte(' ')
	case 1:
		b.WriteByte(',')
	case 2:
		b.WriteByte('\n')
	case 3:
		b.WriteString(", ")
	case 4:
		b.WriteString(" //")
		b.WriteString(g.commentText())
		b.WriteString("\n")
	case 5:
		b.WriteString("\n  ")
	case 6:
		if g.allowExt {
			g.ext = true
			b.WriteString(" /* c */ ")
		} else {
			b.WriteByte(' ')
		}
	default:
		b.WriteString("  ")
	}
}

func (g *senGen) ows(b *strings.Builder) {
	switch sim.Intn(g.t, 10, "ows") {
	case 6:
		b.WriteByte('\t')
	case 7:
		b.WriteString("\r\n")
	case 8:
		b.WriteByte('\r')
	case 9:
		b.WriteString(" \t ")
	case 1:
		b.WriteByte(' ')
	case 2:
		b.WriteByte('\n')
	case 3:
		b.WriteString("//")
		b.WriteString(g.commentText())
		b.WriteString("\n")
	}
}

var commentTexts = []string{"x", " note", "", " a\tb", " crlf\r", " é ü", " \"quoted\" 'q'", " [1,2] {a:b}", " // again", " /* not a block */", " \\", " 0123456789 0123456789 0123456789 0123456789"}

// commentText draws the body of a line comment (sen.md puts no restriction on it; tabs and the CR of
// a CRLF line end are realistic).
func (g *senGen) commentText() string {
	return commentTexts[sim.Intn(g.t, len(commentTexts), "comment")]
}

func (g *senGen) str(b *strings.Builder) {
	q := byte('"')
	if sim.Intn(g.t, 3, "squote") == 2 {
		q = '\''
	}
	body := StringBody(g.t, 6)
	if q == '\'' {
		// keep the body free of unescaped single quotes
		body = strings.ReplaceAll(body, "'", "x")
	}
	b.WriteByte(q)
	b.WriteString(body)
	b.WriteByte(q)
	if g.allowExt && sim.Intn(g.t, 10, "plus") == 9 {
		g.ext = true
		b.WriteString([]string{" + ", "+", " +\n"}[sim.Intn(g.t, 3, "plusws")])
		b.WriteByte('"')
		b.WriteString(StringBody(g.t, 3))
		b.WriteByte('"')
	}
}

func (g *senGen) value(b *strings.Builder, depth int) {
	max := 8
	if depth <= 0 {
		max = 6
	}
	if g.allowExt && g.nested > 0 && sim.Intn(g.t, 12, "func") == 11 {
		// token function (parser extension): name(args...), only inside a container
		g.ext = true
		b.WriteString(senFuncNames[sim.Intn(g.t, len(senFuncNames), "fname")])
		b.WriteByte('(')
		n := sim.Intn(g.t, 3, "nargs")
		for i := 0; i < n; i++ {
			if i > 0 {
				b.WriteString([]string{" ", ", ", ","}[sim.Intn(g.t, 3, "argsep")])
			}
			b.WriteString(senFuncArgs[sim.Intn(g.t, len(senFuncArgs), "farg")])
		}
		b.WriteByte(')')
		return
	}
	switch sim.Intn(g.t, max, "svkind") {
	case 0:
		b.WriteString(Number(g.t))
	case 1:
		g.str(b)
	case 2:
		b.WriteString(senToken(g.t))
		if g.allowExt && g.nested > 0 && sim.Intn(g.t, 8, "tokplus") == 7 {
			// '+' concatenation with a bare token as the left operand (parser extension)
			g.ext = true
			b.WriteString([]string{" + ", "+", " +\n"}[sim.Intn(g.t, 3, "plusws")])
			b.WriteByte('"')
			b.WriteString(StringBody(g.t, 3))
			b.WriteByte('"')
		}
	case 3:
		b.WriteString("null")
	case 4:
		b.WriteString("true")
	case 5:
		b.WriteString("false")
	case 6:
		b.WriteByte('[')
		g.ows(b)
		n := sim.Intn(g.t, 5, "alen")
		g.nested++
		for i := 0; i < n; i++ {
			if i > 0 {
				g.sep(b)
			}
			g.value(b, depth-1)
		}
		g.nested--
		g.ows(b)
		b.WriteByte(']')
	default:
		b.WriteByte('{')
		g.ows(b)
		n := sim.Intn(g.t, 4, "olen")
		for i := 0; i < n; i++ {
			if i > 0 {
				g.sep(b)
			}
			if k := sim.Intn(g.t, 5, "keykind"); k < 2 {
				if sim.Intn(g.t, 6, "kwkey") == 5 {
					// a key that reads like a literal (the SEN writer itself leaves such keys unquoted)
					b.WriteString([]string{"null", "true", "false", "nulls", "truer", "falsey"}[sim.Intn(g.t, 6, "kw")])
				} else {
					b.WriteString(senToken(g.t))
				}
			} else if k == 2 {
				b.WriteByte('\'')
				b.WriteString(strings.ReplaceAll(keyPool[sim.Intn(g.t, len(keyPool), "key")], "'", "x"))
				b.WriteByte('\'')
			} else {
				b.WriteByte('"')
				b.WriteString(keyPool[sim.Intn(g.t, len(keyPool), "key")])
				b.WriteByte('"')
			}
			g.ows(b)
			b.WriteByte(':')
			g.ows(b)
			g.nested++
			g.value(b, depth-1)
			g.nested--
		}
		g.ows(b)
		b.WriteByte('}')
	}
}

// SENDoc draws a valid SEN document (the property speaks of agreement "on SEN input", so no
// near-valid mutations are drawn for the SEN front-ends). inSpec
// reports whether it stays inside sen.md (no '+' concatenation, no /* */ comments), which is
// the domain on which the SEN tokenizer is compared with the SEN parser.
func SENDoc(t *rapid.T, depth int) (doc []byte, inSpec bool) {
	g := &senGen{t: t, allowExt: sim.Intn(t, 3, "senext") == 2}
	var b strings.Builder
	g.ows(&b)
	if sim.Intn(t, 16, "bigsen") == 15 {
		// strict JSON is SEN: deep / long-string / long-array / many-member documents
		Big(t, &b)
		g.ows(&b)
		return []byte(b.String()), true
	}
	n := 1
	if sim.Intn(t, 6, "senmulti") == 5 {
		n = 2 + sim.Intn(t, 2, "n")
	}
	for i := 0; i < n; i++ {
		if i > 0 {
			b.WriteString([]string{" ", "\n", ",", "  "}[sim.Intn(t, 4, "dsep")])
		}
		g.value(&b, depth)
	}
	g.ows(&b)
	doc = []byte(b.String())
	inSpec = !g.ext
	return doc, inSpec
}
