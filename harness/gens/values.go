package gens

import (
	"math"
	"unicode/utf8"

	"pgregory.net/rapid"

	"github.com/ohler55/ojg/gen"

	"verif/harness/sim"
)

var specialInt64 = []int64{0, 1, -1, 7, 42, -100, 255, 65536, 1 << 31, -(1 << 31), 1 << 53, 1<<53 + 1, -(1<<53 + 1),
	math.MaxInt64, math.MinInt64, math.MaxInt64 - 1, 922337203685477580, 1000000000000000000}

var specialFloat64 = []float64{0, 1.5, -2.25, 0.1, 1e21, 1e20, 1e-7, 1e-6, 123456789.123, math.MaxFloat64, math.SmallestNonzeroFloat64,
	-math.MaxFloat64, 1.0, 100.0, 3.0e10, 0.30000000000000004, 5e-324, 2.2250738585072014e-308, math.Copysign(0, -1), 9007199254740993.0,
	// whole numbers at the edges of the integer types and of the formats a float may be written in
	9223372036854775808.0, -9223372036854775808.0, 9223372036854774784.0, 9223372036854777856.0, 18446744073709551616.0, 18446744073709549568.0,
	4294967296.0, 2147483648.0, -2147483649.0, 9007199254740992.0, 1e15, 1e16, 1e17, 999999999999999.0, 1e6, 123456.0, -1e6, 1e-5, 1e-4, 1e100, 1e-100, -1e21, 1e22, 1e23, 5e-7, 65536.0, 0.5, -0.5}

var specialStrings = []string{"", "a", "abc", "x y", "\"", "\\", "a\"b\\c", "\n", "\t\r\b\f", "\x00", "\x1f", "\x7f", "<>&", "</script>",
	" ", " ", "a b", "é", "日本語", "😀", "\xff", "a\xc3", "\xe2\x82", "\xed\xa0\x80", "null", "true", "123", "-", "//", "'", "key:", "[", "{}", ","}

var valueKeys = []string{"a", "b", "c", "", "k1", "x y", "<k>", "é", "\"q\"", "a\nb", "k\xff", "zz", "Z", "0", " "}

// String draws a string of every class the property lists.
func String(t *rapid.T) string {
	switch sim.Weighted(t, "strkind", 5, 2, 1) {
	case 0:
		return specialStrings[sim.Intn(t, len(specialStrings), "special")]
	case 1:
		n := sim.Intn(t, 12, "len")
		b := make([]byte, n)
		for i := range b {
			b[i] = byte(sim.Intn(t, 256, "byte"))
		}
		return string(b)
	default:
		n := 20 + sim.Intn(t, 120, "longlen")
		b := make([]byte, n)
		for i := range b {
			b[i] = "abcdefghij klmno\"\\\n<é"[sim.Intn(t, 22, "ch")]
		}
		return string(b)
	}
}

// Key draws an object key: mostly from a small pool (so that siblings collide and columns line up),
// now and then very long (far beyond any fixed padding or indentation table) or full of bytes that are
// escaped to six bytes each.
func Key(t *rapid.T) string {
	switch sim.Weighted(t, "keykind", 20, 1, 1, 2) {
	case 3:
		return String(t) // whatever a string value may hold, a key may hold
	case 1:
		return "long_key_" + string(make([]byte, 0)) + repeatTo("abcdefghij", 120+sim.Intn(t, 300, "keylen"))
	case 2:
		n := 20 + sim.Intn(t, 40, "ctl")
		b := make([]byte, n)
		for i := range b {
			b[i] = byte(1 + i%30)
		}
		return string(b)
	}
	return valueKeys[sim.Intn(t, len(valueKeys), "key")]
}

// written is the key as a JSON text can carry it: every invalid byte replaced by U+FFFD.
func written(k string) string {
	if utf8.ValidString(k) {
		return k
	}
	var b []rune
	for i := 0; i < len(k); {
		r, size := utf8.DecodeRuneInString(k[i:])
		b = append(b, r) // (RuneError for an invalid byte, size 1)
		i += size
	}
	return string(b)
}

func repeatTo(s string, n int) string {
	b := make([]byte, 0, n)
	for len(b) < n {
		b = append(b, s...)
	}
	return string(b[:n])
}

// Scalar draws nil / bool / int64 / finite float64 / string.
func Scalar(t *rapid.T) any {
	switch sim.Intn(t, 8, "skind") {
	case 7:
		// a whole float of any magnitude (the fast paths and formats encoders pick for integers held in floats)
		f := float64(rapid.Int64().Draw(t, "whole") >> uint(sim.Intn(t, 64, "shift")))
		if sim.Intn(t, 4, "scale") == 3 {
			f *= math.Pow(2, float64(sim.Intn(t, 40, "pow")))
		}
		return f
	case 0:
		return nil
	case 1:
		return sim.Bool(t, "bool")
	case 2:
		return int64(sim.Intn(t, 100, "smallint"))
	case 3:
		return specialInt64[sim.Intn(t, len(specialInt64), "int")]
	case 4:
		return specialFloat64[sim.Intn(t, len(specialFloat64), "float")]
	case 5:
		f := math.Float64frombits(rapid.Uint64().Draw(t, "fbits"))
		if math.IsNaN(f) || math.IsInf(f, 0) {
			f = 0.5
		}
		return f
	default:
		return String(t)
	}
}

// Tree draws a tree of simple values: nil/bool/int64/finite float64/string/[]any/map[string]any.
// Containers are never nil (nil slices are strict-mode territory).
func Tree(t *rapid.T, depth int) any {
	max := 5
	if depth <= 0 {
		max = 3
	}
	switch sim.Intn(t, max, "tkind") {
	case 3:
		n := sim.Intn(t, 5, "alen")
		if n == 0 && sim.Intn(t, 4, "nilslice") == 3 {
			return []any(nil) // a list that was never appended to
		}
		a := make([]any, 0, n)
		for i := 0; i < n; i++ {
			a = append(a, Tree(t, depth-1))
		}
		return a
	case 4:
		n := sim.Intn(t, 5, "olen")
		if n == 0 && sim.Intn(t, 4, "nilmap") == 3 {
			return map[string]any(nil)
		}
		m := make(map[string]any, n)
		// two keys that differ in invalid bytes only become the same member name in a JSON text (each invalid byte is
		// written as U+FFFD): such a map has no JSON text that denotes it, so the second key is not used
		seen := map[string]bool{}
		for i := 0; i < n; i++ {
			k := Key(t)
			v := Tree(t, depth-1)
			if w := written(k); !seen[w] {
				seen[w] = true
				m[k] = v
			}
		}
		return m
	default:
		return Scalar(t)
	}
}

// Wide draws a flat but wide container (many elements or members: buffer growth, many flushes,
// two- and three-digit indexes).
func Wide(t *rapid.T) any {
	n := 20 + sim.Intn(t, 300, "wide")
	if sim.Bool(t, "wideobj") {
		m := make(map[string]any, n)
		for i := 0; i < n; i++ {
			m["k"+string(rune('a'+i%26))+string(rune('0'+i/26%10))+string(rune('0'+i/260))] = Scalar(t)
		}
		return m
	}
	a := make([]any, 0, n)
	el := Scalar(t)
	for i := 0; i < n; i++ {
		if i%17 == 0 {
			el = Scalar(t)
		}
		a = append(a, el)
	}
	return a
}

// SizedValue draws a value one of whose dimensions - string length, key length, number of elements or members, depth - is a
// power of two between 8 and 2048, or one less, or one more.
func SizedValue(t *rapid.T) any {
	n := (8 << uint(sim.Intn(t, 9, "pow"))) + sim.Intn(t, 3, "delta") - 1
	switch sim.Intn(t, 6, "dim") {
	case 0:
		return []any{repeatTo("0123456789", n), Scalar(t)}
	case 1:
		return map[string]any{repeatTo("kkkkkkkkk_", n): Scalar(t), "b": []any{map[string]any{repeatTo("qqqq ", n): nil, "z": int64(1)}}}
	case 2:
		a := make([]any, n)
		for i := range a {
			a[i] = int64(i % 10)
		}
		return a
	case 3:
		m := make(map[string]any, n)
		for i := 0; i < n; i++ {
			m["m"+string(rune('a'+i%26))+string(rune('a'+i/26%26))+string(rune('a'+i/676))] = int64(i % 3)
		}
		return m
	case 4:
		if n > 600 {
			n = 255 + n%3
		}
		var v any = Scalar(t)
		for i := 0; i < n; i++ {
			if i%2 == 0 {
				v = []any{v}
			} else {
				v = map[string]any{"d": v}
			}
		}
		return v
	default: // rows of equal shape whose cells have the size (aligned layouts)
		cell := repeatTo("c", n%140)
		return []any{[]any{cell, int64(1), "x"}, []any{"y", int64(22), cell}, []any{cell + "!", int64(333), ""}}
	}
}

// Deep draws a narrow but deep tree (depth beyond the writers' indentation tables).
func Deep(t *rapid.T, depth int) any {
	var v any = Scalar(t)
	for i := 0; i < depth; i++ {
		if sim.Bool(t, "deepkind") {
			v = []any{v}
		} else {
			m := map[string]any{valueKeys[sim.Intn(t, len(valueKeys), "key")]: v}
			if sim.Intn(t, 4, "sibling") == 3 {
				m["s"] = Scalar(t)
			}
			v = m
		}
	}
	return v
}

// ToGen converts a simple tree into the equivalent gen tree.
func ToGen(v any) any {
	switch tv := v.(type) {
	case nil:
		return nil
	case bool:
		return gen.Bool(tv)
	case int64:
		return gen.Int(tv)
	case float64:
		return gen.Float(tv)
	case string:
		return gen.String(tv)
	case []any:
		if tv == nil {
			return gen.Array(nil)
		}
		a := make(gen.Array, len(tv))
		for i, e := range tv {
			if g := ToGen(e); g != nil {
				a[i] = g.(gen.Node)
			}
		}
		return a
	case map[string]any:
		if tv == nil {
			return gen.Object(nil)
		}
		o := make(gen.Object, len(tv))
		for k, e := range tv {
			if g := ToGen(e); g != nil {
				o[k] = g.(gen.Node)
			} else {
				o[k] = nil
			}
		}
		return o
	}
	return v
}

// MaxMembers reports the largest object size in the tree (0 or 1 means member order is deterministic).
func MaxMembers(v any) int {
	max := 0
	switch tv := v.(type) {
	case []any:
		for _, e := range tv {
			if m := MaxMembers(e); m > max {
				max = m
			}
		}
	case map[string]any:
		max = len(tv)
		for _, e := range tv {
			if m := MaxMembers(e); m > max {
				max = m
			}
		}
	}
	return max
}
