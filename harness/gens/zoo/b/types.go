// Package b is the other half of the C16 type zoo: same type names as package a, other fields.
package b

type Inner struct {
	N string
	Q bool
}

type Item struct {
	X     int
	Name  []string
	Count int
}

type Extra struct {
	E int
	F float64
}

type Node struct {
	ID   string
	Next *Node
	In   Inner
	Its  []Item
}

type Pair struct {
	Left  *Item
	Right Item
	In    map[string]Inner
}
