// Package v1 (import path .../zoo/x/v1) and its namesake .../zoo/y/v1 share a package name and a type name
// (both are "v1.Stamp" for reflect.Type.String); this one decodes itself.
package v1

import (
	"bytes"
	"encoding/json"
	"fmt"
	"strconv"
)

// Stamp writes itself in a wire form of its own and reads that form, or the field names Decompose writes.
type Stamp struct {
	Sec  int64
	Zone string
}

func (s Stamp) MarshalJSON() ([]byte, error) {
	return []byte(fmt.Sprintf(`{"s":%d,"z":%q}`, s.Sec, s.Zone)), nil
}

func (s *Stamp) UnmarshalJSON(b []byte) error {
	var m map[string]any
	dec := json.NewDecoder(bytes.NewReader(b))
	dec.UseNumber()
	if err := dec.Decode(&m); err != nil {
		return err
	}
	for k, v := range m {
		switch k {
		case "s", "sec", "Sec":
			// (a number, or the digits as text: an integer at the end of the int64 range is decomposed to text)
			n, err := strconv.ParseInt(fmt.Sprint(v), 10, 64)
			if err != nil {
				// (oj.Unmarshal parses every number as a float: 9.007199254740992e+15)
				f, ferr := strconv.ParseFloat(fmt.Sprint(v), 64)
				if ferr != nil {
					return fmt.Errorf("v1.Stamp: seconds are %T %v", v, v)
				}
				n = int64(f)
			}
			s.Sec = n
		case "z", "zone", "Zone":
			z, ok := v.(string)
			if !ok {
				return fmt.Errorf("v1.Stamp: zone is a %T", v)
			}
			s.Zone = z
		}
	}
	return nil
}

type Entry struct {
	ID int
	At Stamp
	L  []Stamp
	A  [2]Stamp
}
