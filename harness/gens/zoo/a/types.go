// Package a is one half of the C16 type zoo: it declares types whose names also exist in
// package b with different fields.
package a

import "time"

type Inner struct {
	N int
	S string
}

type Item struct {
	X    float64
	Name string
	Tags []string
}

type Extra struct {
	E string
}

// Uniq has a name that exists nowhere else; it is what interface-typed fields hold.
type Uniq struct {
	A int
	B string
	L []int
}

type Node struct {
	ID    int64
	Child *Node
	Kids  []Node
	Attrs map[string]Inner
	Any   any
	In    Inner
	Ptr   *Inner
	Arr   [2]int
	U8    uint8
	U64   uint64
	F32   float32
	F64   float64
	B     bool
	T     string `json:"t"`
	Om    int    `json:"om,omitempty"`
	Items []*Item
}

type Embeds struct {
	Inner
	Extra
	Z int
}

type Pair struct {
	Left  Item
	Right *Item
	M     map[string]*Inner
}

// Deep collects container-of-container shapes.
type Deep struct {
	Grid [][]int
	LM   []map[string]int
	MS   map[string][]Inner
	AI   [2]Inner
	MM   map[string]map[string]int
	PP   []*Item
	Opt  *Extra `json:"opt,omitempty"`
	Last []Inner
}

// Wrapper is only ever used embedded: its struct typed members are reachable through the embedding alone.
type Wrapper struct {
	WIn   Pair
	WList []Uniq
}

// EmbedsDeep embeds a struct that itself has struct typed members.
type EmbedsDeep struct {
	Wrapper
	Z int
}

// Overlap: the written key of one field equals the Go name (or its lower-cased form) of another.
type Overlap struct {
	Name  string  `json:"title"`
	Title *string `json:"subtitle"`
	Sub   any     `json:"name"`
}

type OverlapBase struct {
	ID string `json:"id"`
}

// OverlapEmb: an embedded struct's key collides with the lower-cased name of an outer field.
type OverlapEmb struct {
	OverlapBase
	Id  *int64 `json:"item_id"`
	Ptr *Inner `json:"n"`
}

// Times holds time values in every position.
type Times struct {
	At     time.Time
	Seen   []time.Time
	Window [2]time.Time
	ByName map[string]time.Time
	PT     *time.Time
	N      int
}

// EmbTag embeds structs whose json tags give them a name, an option only, or nothing.
type EmbTag struct {
	Inner `json:"inner"`
	Extra `json:",omitempty"`
	Uniq
	Z int `json:"z"`
}

// Holder keeps, behind an interface, a value of one of its own member types: registering (or recomposing into) the
// owner covers the struct types of its members, so a create key is enough to get them back. The member types (names
// that exist nowhere else: a create key without the full type path names a type by its short name) sit at the first,
// a middle and the last field index.
type Holder struct {
	First HFirst
	Any   any
	Mid   []HMid
	Any2  any
	Last  *HLast
}

type HFirst struct {
	N int
	S string
}

type HMid struct{ E string }

type HLast struct {
	X    float64
	Name string
}

// Level and TagList are named types that are not structs; a struct that embeds one has a field named after the
// type (nothing to promote), as for encoding/json.
type Level int
type TagList []string

type EmbScalar struct {
	Level
	TagList
	Name string
}

type EmbScalarPtr struct {
	*Level
	N int
}
