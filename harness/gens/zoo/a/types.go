// Package a is one half of the C16 type zoo: it declares types whose names also exist in
// package b with different fields.
package a

type Inner struct {
	N int
	S string
}

type Item struct {
	X    float64
	Name string
	Tags []string
}

type Extra struct {
	E string
}

// Uniq has a name that exists nowhere else; it is what interface-typed fields hold.
type Uniq struct {
	A int
	B string
	L []int
}

type Node struct {
	ID    int64
	Child *Node
	Kids  []Node
	Attrs map[string]Inner
	Any   any
	In    Inner
	Ptr   *Inner
	Arr   [2]int
	U8    uint8
	U64   uint64
	F32   float32
	F64   float64
	B     bool
	T     string `json:"t"`
	Om    int    `json:"om,omitempty"`
	Items []*Item
}

type Embeds struct {
	Inner
	Extra
	Z int
}

type Pair struct {
	Left  Item
	Right *Item
	M     map[string]*Inner
}

// Deep collects container-of-container shapes.
type Deep struct {
	Grid [][]int
	LM   []map[string]int
	MS   map[string][]Inner
	AI   [2]Inner
	MM   map[string]map[string]int
	PP   []*Item
	Opt  *Extra `json:"opt,omitempty"`
	Last []Inner
}

// Wrapper is only ever used embedded: its struct typed members are reachable through the embedding alone.
type Wrapper struct {
	WIn   Pair
	WList []Uniq
}

// EmbedsDeep embeds a struct that itself has struct typed members.
type EmbedsDeep struct {
	Wrapper
	Z int
}
