// Package v1 (import path .../zoo/y/v1): the plain namesake of .../zoo/x/v1.
package v1

type Stamp struct {
	Sec  int64
	Zone string
}

type Invoice struct {
	N  int
	At Stamp
	L  []Stamp
	A  [2]Stamp
}
