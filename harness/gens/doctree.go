package gens

import (
	"strings"

	"pgregory.net/rapid"

	"verif/harness/sim"
)

// ONode is an order-preserving JSON document tree (object members keep their textual order,
// which a map[string]any parse loses); used where document order is part of the oracle (C17).
type ONode struct {
	Kind byte // 'o' object, 'a' array, 's' scalar
	Keys []string
	Kids []*ONode
	Text string // scalar: its JSON text
}

var docKeys = []string{"a", "b", "c", "k1", "x y", "", "é", "a.b", "0"}

// OTree draws an ordered document tree. Object keys are distinct within one object.
func OTree(t *rapid.T, depth int) *ONode {
	max := 3
	if depth <= 0 {
		max = 1
	}
	switch sim.Intn(t, max, "okind") {
	case 0:
		n := &ONode{Kind: 's'}
		switch sim.Intn(t, 6, "scalar") {
		case 0:
			n.Text = Number(t)
		case 1:
			n.Text = "\"" + StringBody(t, 5) + "\""
		case 2:
			n.Text = "null"
		case 3:
			n.Text = "true"
		case 4:
			n.Text = "false"
		default:
			n.Text = []string{"1", "2", "3", "\"x\"", "0.5"}[sim.Intn(t, 5, "small")]
		}
		return n
	case 1:
		n := &ONode{Kind: 'a'}
		k := sim.Intn(t, 5, "alen")
		if sim.Intn(t, 12, "longarr") == 11 {
			k = 9 + sim.Intn(t, 8, "alen2") // two-digit indexes
		}
		for i := 0; i < k; i++ {
			n.Kids = append(n.Kids, OTree(t, depth-1))
		}
		return n
	default:
		n := &ONode{Kind: 'o'}
		k := sim.Intn(t, 5, "olen")
		used := map[string]bool{}
		for i := 0; i < k; i++ {
			key := docKeys[sim.Intn(t, len(docKeys), "key")]
			if used[key] {
				continue
			}
			used[key] = true
			n.Keys = append(n.Keys, key)
			n.Kids = append(n.Kids, OTree(t, depth-1))
		}
		return n
	}
}

// OSized wraps or extends a small tree so that one dimension of the document - the depth of the path to the
// subtree, the index of the subtree in an array, the length of a key on the way - is a power of two between 8 and
// 256, or one less, or one more (and 9/10/11, 99/100/101: where an index gets another digit).
func OSized(t *rapid.T, sub *ONode) *ONode {
	sizes := []int{7, 8, 9, 10, 11, 15, 16, 17, 31, 32, 33, 63, 64, 65, 99, 100, 101, 127, 128, 129, 255, 256, 257}
	n := sizes[sim.Intn(t, len(sizes), "size")]
	switch sim.Intn(t, 3, "sizedim") {
	case 0: // depth: n levels of single-child containers above the subtree
		if n > 65 {
			n = 31 + n%3 // (descents over deeper chains make the reference evaluation itself explode)
		}
		cur := sub
		for i := 0; i < n; i++ {
			if i%3 == 1 {
				cur = &ONode{Kind: 'o', Keys: []string{docKeys[i%len(docKeys)]}, Kids: []*ONode{cur}}
			} else {
				cur = &ONode{Kind: 'a', Kids: []*ONode{cur}}
			}
		}
		return cur
	case 1: // index: an array of n small scalars with the subtree last (index n) and once more in the middle
		a := &ONode{Kind: 'a'}
		for i := 0; i < n; i++ {
			a.Kids = append(a.Kids, &ONode{Kind: 's', Text: []string{"1", "null", "\"x\"", "2.5"}[i%4]})
		}
		a.Kids[n/2] = OTree(t, 1)
		a.Kids = append(a.Kids, sub)
		return a
	default: // key length
		return &ONode{Kind: 'o', Keys: []string{"a", strings.Repeat("k", n), "b"}, Kids: []*ONode{{Kind: 's', Text: "1"}, sub, {Kind: 's', Text: "2"}}}
	}
}

func quoteKey(k string) string {
	var b strings.Builder
	b.WriteByte('"')
	for i := 0; i < len(k); i++ {
		switch k[i] {
		case '"', '\\':
			b.WriteByte('\\')
		}
		b.WriteByte(k[i])
	}
	b.WriteByte('"')
	return b.String()
}

// Render writes the tree as JSON text with drawn whitespace.
func (n *ONode) Render(t *rapid.T, b *strings.Builder) {
	switch n.Kind {
	case 's':
		b.WriteString(n.Text)
	case 'a':
		b.WriteByte('[')
		ws(t, b)
		for i, k := range n.Kids {
			if i > 0 {
				b.WriteByte(',')
				ws(t, b)
			}
			k.Render(t, b)
			ws(t, b)
		}
		b.WriteByte(']')
	case 'o':
		b.WriteByte('{')
		ws(t, b)
		for i, k := range n.Kids {
			if i > 0 {
				b.WriteByte(',')
				ws(t, b)
			}
			b.WriteString(quoteKey(n.Keys[i]))
			ws(t, b)
			b.WriteByte(':')
			ws(t, b)
			k.Render(t, b)
			ws(t, b)
		}
		b.WriteByte('}')
	}
}
