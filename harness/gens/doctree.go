package gens

import (
	"strings"

	"pgregory.net/rapid"

	"verif/harness/sim"
)

// ONode is an order-preserving JSON document tree (object members keep their textual order,
// which a map[string]any parse loses); used where document order is part of the oracle (C17).
type ONode struct {
	Kind byte // 'o' object, 'a' array, 's' scalar
	Keys []string
	Kids []*ONode
	Text string // scalar: its JSON text
}

var docKeys = []string{"a", "b", "c", "k1", "x y", "", "é", "a.b", "0"}

// OTree draws an ordered document tree. Object keys are distinct within one object.
func OTree(t *rapid.T, depth int) *ONode {
	max := 3
	if depth <= 0 {
		max = 1
	}
	switch sim.Intn(t, max, "okind") {
	case 0:
		n := &ONode{Kind: 's'}
		switch sim.Intn(t, 6, "scalar") {
		case 0:
			n.Text = Number(t)
		case 1:
			n.Text = "\"" + StringBody(t, 5) + "\""
		case 2:
			n.Text = "null"
		case 3:
			n.Text = "true"
		case 4:
			n.Text = "false"
		default:
			n.Text = []string{"1", "2", "3", "\"x\"", "0.5"}[sim.Intn(t, 5, "small")]
		}
		return n
	case 1:
		n := &ONode{Kind: 'a'}
		k := sim.Intn(t, 5, "alen")
		if sim.Intn(t, 12, "longarr") == 11 {
			k = 9 + sim.Intn(t, 8, "alen2") // two-digit indexes
		}
		for i := 0; i < k; i++ {
			n.Kids = append(n.Kids, OTree(t, depth-1))
		}
		return n
	default:
		n := &ONode{Kind: 'o'}
		k := sim.Intn(t, 5, "olen")
		used := map[string]bool{}
		for i := 0; i < k; i++ {
			key := docKeys[sim.Intn(t, len(docKeys), "key")]
			if used[key] {
				continue
			}
			used[key] = true
			n.Keys = append(n.Keys, key)
			n.Kids = append(n.Kids, OTree(t, depth-1))
		}
		return n
	}
}

func quoteKey(k string) string {
	var b strings.Builder
	b.WriteByte('"')
	for i := 0; i < len(k); i++ {
		switch k[i] {
		case '"', '\\':
			b.WriteByte('\\')
		}
		b.WriteByte(k[i])
	}
	b.WriteByte('"')
	return b.String()
}

// Render writes the tree as JSON text with drawn whitespace.
func (n *ONode) Render(t *rapid.T, b *strings.Builder) {
	switch n.Kind {
	case 's':
		b.WriteString(n.Text)
	case 'a':
		b.WriteByte('[')
		ws(t, b)
		for i, k := range n.Kids {
			if i > 0 {
				b.WriteByte(',')
				ws(t, b)
			}
			k.Render(t, b)
			ws(t, b)
		}
		b.WriteByte(']')
	case 'o':
		b.WriteByte('{')
		ws(t, b)
		for i, k := range n.Kids {
			if i > 0 {
				b.WriteByte(',')
				ws(t, b)
			}
			b.WriteString(quoteKey(n.Keys[i]))
			ws(t, b)
			b.WriteByte(':')
			ws(t, b)
			k.Render(t, b)
			ws(t, b)
		}
		b.WriteByte('}')
	}
}
