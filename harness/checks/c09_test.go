package checks

import (
	"fmt"
	"testing"

	"verif/harness/ref"
	"verif/harness/sim"
)

// C09 — parse errors point at the first offending byte, the same for every front-end and for
// every chunking. The position itself is supplied by the independent recogniser (refjson);
// the simulated dimension is the reader's delivery schedule.
func propC09(cx *sim.Ctx) {
	sim.Declare([]string{"error_after_newline", "error_in_later_read", "error_beyond_first_4096", "front_end_accepts_rejected_input", "input_not_rejected_by_reference"}, []string{})
	c := drawStreamCase(cx.T, true)
	cx.Render(c.render)
	cx.Key(c.Input)
	for _, s := range c.Scheds {
		cx.Key(s.String())
	}
	in := c.Input
	cx.Key(c.Used)
	feUsed = c.Used
	defer func() { feUsed = 0 }()
	scan := ref.ScanJSON(in)
	if scan.Valid || scan.Empty {
		sim.Probe("input_not_rejected_by_reference")
		return
	}
	wantLine, wantCol := ref.LineCol(in, scan.ErrOff)
	scheds := c.Scheds
	if c.Sweep {
		scheds = append(append([]*sim.Schedule(nil), scheds...), sweepSchedules(len(in))...)
		cx.Key("sweep")
	}
	laterRead := false
	judge := func(o *outcome) {
		cx.Exec()
		cx.Steps(o.Calls)
		attrs := map[string]any{"front": o.Name, "family": c.Family, "first_byte_ef": len(in) > 0 && in[0] == 0xEF}
		switch o.class() {
		case "hang", "panic":
			cx.Fail(fmt.Sprintf("C09/%s/%s", o.Name, o.class()), o.String(), attrs)
			return
		case "value":
			// accepting what the reference rejects is C01's concern, not judged here
			sim.Probe("front_end_accepts_rejected_input")
			return
		}
		line, col, ok := o.pos()
		if !ok {
			cx.Fail(fmt.Sprintf("C09/%s/no-position", o.Name), fmt.Sprintf("rejecting error carries no line/column: %v", o.Err), attrs)
			return
		}
		for _, b := range o.Bounds {
			if b <= scan.ErrOff {
				laterRead = true
			}
		}
		if line != wantLine || col != wantCol {
			what := "position"
			if o.Bounds != nil {
				what = "position-chunked"
			}
			attrs["incomplete"] = scan.Incomplete
			cx.Fail(fmt.Sprintf("C09/%s/%s", o.Name, what),
				fmt.Sprintf("reported %d:%d, first offending byte is offset %d = %d:%d (incomplete=%v) ; error: %v", line, col, scan.ErrOff, wantLine, wantCol, scan.Incomplete, o.Err), attrs)
		}
	}
	judge(ojParse(in, modeSingle))
	cx.BaselineDone()
	judge(ojValidate(in))
	judge(ojTokParse(in, modeSingle))
	judge(genParse(in, modeSingle))
	for _, s := range scheds {
		judge(ojParseReader(in, s, modeSingle))
		judge(ojValidateReader(in, s))
		judge(ojTokLoad(in, s, modeSingle))
		judge(genParseReader(in, s, modeSingle))
	}
	if wantLine > 1 {
		sim.Probe("error_after_newline")
	}
	if laterRead {
		sim.Probe("error_in_later_read")
	}
	if scan.ErrOff >= 4096 {
		sim.Probe("error_beyond_first_4096")
	}
	if laterRead || wantLine > 1 {
		cx.NonTrivial()
	}
}

func TestC09(t *testing.T) { sim.Main(t, "C09", propC09) }
