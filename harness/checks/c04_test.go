package checks

import (
	"bytes"
	"encoding/json"
	"fmt"
	"io"
	"math"
	"math/big"
	"regexp"
	"sort"
	"strconv"
	"strings"
	"testing"
	"unicode/utf8"

	"pgregory.net/rapid"

	"github.com/ohler55/ojg"
	"github.com/ohler55/ojg/oj"
	"github.com/ohler55/ojg/pretty"

	"verif/harness/gens"
	"verif/harness/sim"
)

// C04 — JSON writers emit valid JSON that denotes the data written; streaming Write emits
// byte-for-byte the text of the in-memory call for every WriteLimit.
//
// Simulated dimension: the io.Writer and the flush schedule (WriteLimit knob), plus write
// faults. Oracle baseline (a pure function, stated as such): validity and denotation of the
// in-memory text, judged with encoding/json as the independent reference.

type writeCase struct {
	Value    any
	UseGen   bool
	Opt      ojg.Options
	Limit    int
	Width    int
	MaxDepth int
	Align    bool
	FailCall int
	Deep     bool
	// a Writer that has been used before under other options (0 = fresh): bit mask of the options that
	// differed in the earlier call; PriorWhole: the options are then assigned as a whole, else field by field
	Prior      int
	PriorWhole bool
	PriorWrite bool // the earlier call was Write to an io.Writer (else JSON)
}

func (c *writeCase) render() any {
	return map[string]any{
		"value": fmt.Sprintf("%#v", c.Value), "gen": c.UseGen,
		"options":     fmt.Sprintf("Indent=%d Tab=%v Sort=%v OmitNil=%v OmitEmpty=%v HTMLUnsafe=%v InitSize=%d", c.Opt.Indent, c.Opt.Tab, c.Opt.Sort, c.Opt.OmitNil, c.Opt.OmitEmpty, c.Opt.HTMLUnsafe, c.Opt.InitSize),
		"write_limit": c.Limit, "pretty": fmt.Sprintf("width=%d maxDepth=%d align=%v", c.Width, c.MaxDepth, c.Align), "fail_write_call": c.FailCall,
		"used_writer": fmt.Sprintf("earlier call differed in options mask %#x (1 Sort, 2 Indent, 4 Tab, 8 OmitNil, 16 OmitEmpty, 32 HTMLUnsafe), whole=%v write=%v", c.Prior, c.PriorWhole, c.PriorWrite),
	}
}

var limitChoices = []int{1, 2, 3, 4, 5, 6, 7, 8, 10, 13, 16, 21, 34, 55, 89, 144, 1024, 1 << 20}

func drawWriteCase(t *rapid.T) *writeCase {
	c := &writeCase{FailCall: -1}
	if k := sim.Intn(t, 16, "deep"); k >= 14 {
		c.Deep = true
		c.Value = gens.Deep(t, 8+sim.Intn(t, 60, "depth"))
	} else if k == 12 {
		c.Value = gens.SizedValue(t)
	} else if k == 13 {
		c.Value = []any{gens.Wide(t), gens.Tree(t, 2)}
	} else {
		c.Value = gens.Tree(t, 4)
	}
	c.UseGen = sim.Intn(t, 4, "gen") == 3
	o := ojg.Options{}
	switch sim.Intn(t, 4, "indentkind") {
	case 1:
		o.Indent = 1 + sim.Intn(t, 9, "indent")
	case 2:
		o.Tab = true
	case 3:
		o.Indent = 2
	}
	o.Sort = sim.Bool(t, "sort")
	o.OmitNil = sim.Intn(t, 3, "omitnil") == 2
	o.OmitEmpty = sim.Intn(t, 3, "omitempty") == 2
	o.HTMLUnsafe = sim.Bool(t, "htmlunsafe")
	if sim.Bool(t, "initsize") {
		o.InitSize = 1 + sim.Intn(t, 16, "initsizev")
	}
	c.Opt = o
	c.Limit = limitChoices[sim.Intn(t, len(limitChoices), "limit")]
	c.Width = []int{80, 1, 5, 10, 20, 40, 60, 100, 128, 200}[sim.Intn(t, 10, "width")]
	c.MaxDepth = 1 + sim.Intn(t, 6, "maxdepth")
	c.Align = sim.Bool(t, "align")
	if sim.Intn(t, 4, "fault") == 3 {
		c.FailCall = sim.Intn(t, 6, "failcall")
	}
	if sim.Intn(t, 3, "usedwriter") == 2 {
		c.Prior = 1 + sim.Intn(t, 63, "priormask")
		c.PriorWhole = sim.Bool(t, "priorwhole")
		c.PriorWrite = sim.Bool(t, "priorwrite")
	}
	return c
}

// expectedString: what a JSON reader must get back for s (invalid UTF-8 bytes -> U+FFFD each).
func expectedString(s string) string {
	if utf8.ValidString(s) {
		return s
	}
	var b strings.Builder
	for i := 0; i < len(s); {
		r, n := utf8.DecodeRuneInString(s[i:])
		if r == utf8.RuneError && n == 1 {
			b.WriteRune(utf8.RuneError)
		} else {
			b.WriteString(s[i : i+n])
		}
		i += n
	}
	return b.String()
}

const (
	mustKeep = 0
	mayDrop  = 1
	mustDrop = 2
)

// dropClass: three-valued omission rule of DESIGN §4 C04 (never demands more than the option
// documentation and the two implementations' undisputed cases state).
func dropClass(v any, o *ojg.Options) int {
	if !o.OmitNil && !o.OmitEmpty {
		return mustKeep
	}
	switch tv := v.(type) {
	case nil:
		if o.OmitNil {
			return mustDrop
		}
		return mayDrop
	case string:
		if tv == "" {
			if o.OmitEmpty {
				return mustDrop
			}
			return mustKeep
		}
	case []any:
		if len(tv) == 0 {
			if o.OmitEmpty {
				return mustDrop
			}
			return mayDrop
		}
	case map[string]any:
		if len(tv) == 0 {
			if o.OmitEmpty {
				return mustDrop
			}
			return mayDrop
		}
		for _, m := range tv {
			if dropClass(m, o) == mustKeep {
				return mustKeep
			}
		}
		return mayDrop // a container all of whose members may be dropped
	case int64:
		if tv == 0 && o.OmitEmpty {
			return mayDrop
		}
	case float64:
		if tv == 0 && o.OmitEmpty {
			return mayDrop
		}
	case bool:
		if !tv && o.OmitEmpty {
			return mayDrop
		}
	}
	return mustKeep
}

// denotes compares the decoded text (encoding/json, UseNumber) with the value written.
func denotes(exp, got any, o *ojg.Options, path string) (bool, string) {
	switch te := exp.(type) {
	case nil:
		if got != nil {
			return false, fmt.Sprintf("%s: wrote nil, text has %T", path, got)
		}
	case bool:
		if g, ok := got.(bool); !ok || g != te {
			return false, fmt.Sprintf("%s: wrote %v, text has %v", path, te, got)
		}
	case int64:
		g, ok := got.(json.Number)
		if !ok {
			return false, fmt.Sprintf("%s: wrote int64 %d, text has %T", path, te, got)
		}
		bi, ok2 := new(big.Int).SetString(string(g), 10)
		if !ok2 || !bi.IsInt64() || bi.Int64() != te {
			return false, fmt.Sprintf("%s: wrote int64 %d, text has %s", path, te, g)
		}
	case float64:
		g, ok := got.(json.Number)
		if !ok {
			return false, fmt.Sprintf("%s: wrote float64 %v, text has %T", path, te, got)
		}
		f, err := strconv.ParseFloat(string(g), 64)
		if err != nil || f != te {
			return false, fmt.Sprintf("%s: wrote float64 %v (%016x), text has %s", path, te, math.Float64bits(te), g)
		}
	case string:
		g, ok := got.(string)
		if !ok || g != expectedString(te) {
			return false, fmt.Sprintf("%s: wrote string %q, text has %#v", path, te, got)
		}
	case []any:
		if te == nil && got == nil {
			break // a nil list may be written as null (oj.Marshal does, as encoding/json does) or as []
		}
		g, ok := got.([]any)
		if !ok || len(g) != len(te) {
			return false, fmt.Sprintf("%s: wrote array of %d, text has %T of %d", path, len(te), got, len(g))
		}
		for i := range te {
			if ok, why := denotes(te[i], g[i], o, fmt.Sprintf("%s[%d]", path, i)); !ok {
				return false, why
			}
		}
	case map[string]any:
		if te == nil && got == nil {
			break // (a nil map likewise)
		}
		g, ok := got.(map[string]any)
		if !ok {
			return false, fmt.Sprintf("%s: wrote object, text has %T", path, got)
		}
		seen := 0
		for k, ev := range te {
			gv, present := g[expectedString(k)]
			cls := dropClass(ev, o)
			if !present {
				if cls == mustKeep {
					return false, fmt.Sprintf("%s: member %q (%#v) is missing", path, k, ev)
				}
				continue
			}
			seen++
			if cls == mustDrop {
				return false, fmt.Sprintf("%s: member %q (%#v) should have been omitted", path, k, ev)
			}
			if ok, why := denotes(ev, gv, o, fmt.Sprintf("%s[%q]", path, k)); !ok {
				return false, why
			}
		}
		if seen != len(g) {
			return false, fmt.Sprintf("%s: text has %d members of which only %d were written", path, len(g), seen)
		}
	default:
		return false, fmt.Sprintf("%s: unexpected %T in case", path, exp)
	}
	return true, ""
}

func decodeJSON(text []byte) (any, error) {
	if !json.Valid(text) {
		return nil, fmt.Errorf("encoding/json.Valid rejects the text")
	}
	d := json.NewDecoder(bytes.NewReader(text))
	d.UseNumber()
	var v any
	if err := d.Decode(&v); err != nil {
		return nil, err
	}
	if _, err := d.Token(); err != io.EOF {
		return nil, fmt.Errorf("trailing data after the JSON text")
	}
	return v, nil
}

// keysAscend checks, over the token stream, that the members of every object whose keys are
// all valid UTF-8 appear in ascending byte order (Sort).
func keysAscend(text []byte, valid map[string]bool, checkOrder bool) (bool, string) {
	d := json.NewDecoder(bytes.NewReader(text))
	d.UseNumber()
	type frame struct {
		obj     bool
		wantKey bool
		last    string
		has     bool
		skip    bool
		seen    map[string]bool
	}
	var st []frame
	afterValue := func() {
		if n := len(st); n > 0 && st[n-1].obj {
			st[n-1].wantKey = true
		}
	}
	for {
		tok, err := d.Token()
		if err == io.EOF {
			return true, ""
		}
		if err != nil {
			return true, "" // validity is judged elsewhere
		}
		switch tv := tok.(type) {
		case json.Delim:
			switch tv {
			case '{':
				st = append(st, frame{obj: true, wantKey: true})
			case '[':
				st = append(st, frame{})
			default:
				st = st[:len(st)-1]
				afterValue()
			}
		case string:
			if n := len(st); n > 0 && st[n-1].obj && st[n-1].wantKey {
				f := &st[n-1]
				f.wantKey = false
				if f.seen == nil {
					f.seen = map[string]bool{}
				}
				if f.seen[tv] && valid[tv] {
					return false, fmt.Sprintf("member %q is written twice in one object", tv)
				}
				f.seen[tv] = true
				if !checkOrder {
					continue
				}
				if !valid[tv] {
					f.skip = true
				}
				if f.has && !f.skip && !(f.last < tv) {
					return false, fmt.Sprintf("key %q follows %q", tv, f.last)
				}
				f.last, f.has = tv, true
				continue
			}
			afterValue()
		default:
			afterValue()
		}
	}
}

func validKeys(v any, out map[string]bool) {
	switch tv := v.(type) {
	case []any:
		for _, e := range tv {
			validKeys(e, out)
		}
	case map[string]any:
		for k, e := range tv {
			if utf8.ValidString(k) {
				out[k] = true
			}
			validKeys(e, out)
		}
	}
}

func guardStr(f func() string) (s string, p any) {
	defer func() { p = recover() }()
	return f(), nil
}

// ownedWriter: a simulated io.Writer that knows the goroutine of the call it is handed to (sim/foreign.go): a Write that
// arrives on another goroutine is delivered when the caller waits for it, or - once the call has returned - not before the
// case is over, so that what the io.Writer holds when the call returns does not depend on the Go scheduler.
func ownedWriter(failCall int) *sim.SimWriter {
	w := sim.NewSimWriter(failCall)
	w.Own()
	return w
}

func propC04(cx *sim.Ctx) {
	defer sim.ReleaseLate() // (writes still pending on goroutines of the library are delivered when the case is over)
	sim.Declare([]string{"stream_flushed_2plus_times", "flush_right_before_comma", "flush_right_before_close", "flush_right_before_newline_overwrite", "flush_between_key_and_value", "deep_indented_stream", "baseline_text_judged"}, []string{"oj_writer_io_error", "pretty_writer_io_error"})
	c := drawWriteCase(cx.T)
	cx.Render(c.render)
	cx.Key(fmt.Sprintf("%#v", c.Value), c.UseGen, fmt.Sprint(c.Opt.Indent, c.Opt.Tab, c.Opt.Sort, c.Opt.OmitNil, c.Opt.OmitEmpty, c.Opt.HTMLUnsafe, c.Opt.InitSize), c.Limit, c.Width, c.MaxDepth, c.Align, c.FailCall)
	var data any = c.Value
	if c.UseGen {
		data = gens.ToGen(c.Value)
	}
	deterministic := c.Opt.Sort || gens.MaxMembers(c.Value) <= 1
	attrs := map[string]any{"gen": c.UseGen, "align": c.Align, "sort": c.Opt.Sort, "omit": c.Opt.OmitNil || c.Opt.OmitEmpty, "deep": c.Deep}
	vkeys := map[string]bool{}
	validKeys(c.Value, vkeys)

	// baseline oracle (pure clause): text is valid JSON and denotes the value
	judgeText := func(api string, text []byte, sorted bool) bool {
		got, err := decodeJSON(text)
		if err != nil {
			a2 := map[string]any{}
			for k, v := range attrs {
				a2[k] = v
			}
			a2["aligned_map_trailing_comma"] = c.Align && alignedTrailingComma.Match(text)
			cx.Fail("C04/valid/"+api, fmt.Sprintf("%v: %s", err, clip(string(text))), a2)
			return false
		}
		// a JSON text is Unicode: whatever the input strings held, the writers replace invalid bytes, so
		// the text itself must be valid UTF-8 (encoding/json would silently repair it when decoding)
		if !utf8.Valid(text) {
			cx.Fail("C04/valid-utf8/"+api, fmt.Sprintf("the text is not valid UTF-8: %q", clip(string(text))), attrs)
			return false
		}
		if ok, why := denotes(c.Value, got, &c.Opt, "$"); !ok {
			cx.Fail("C04/denotes/"+api, fmt.Sprintf("%s ; text: %s", why, clip(string(text))), attrs)
			return false
		}
		// token-level pass (encoding/json's map decoding would hide a member written twice): no duplicate
		// members; with Sort, ascending key order
		if ok, why := keysAscend(text, vkeys, sorted); !ok {
			cx.Fail("C04/sort-order-or-duplicate/"+api, fmt.Sprintf("%s ; text: %s", why, clip(string(text))), attrs)
			return false
		}
		return true
	}
	// simulated clause: the chunks received by the io.Writer concatenate to the in-memory text
	sameText := func(api string, mem string, sw *sim.SimWriter) {
		cx.Steps(len(sw.Calls))
		if len(sw.Calls) >= 2 {
			sim.Probe("stream_flushed_2plus_times")
		}
		if len(sw.Calls) >= 3 && deterministic {
			// (with Go's random map order the number of flushes is not a function of the seed; such
			// cases are judged all the same but are not used for the non-trivial count)
			cx.NonTrivial()
		}
		for _, wc := range sw.Calls[1:] {
			b := wc.Off
			if b <= 0 || b >= len(sw.Buf) {
				continue
			}
			switch sw.Buf[b] {
			case ',':
				sim.Probe("flush_right_before_comma")
			case ']', '}':
				sim.Probe("flush_right_before_close")
			case '\n':
				sim.Probe("flush_right_before_newline_overwrite")
			}
			if sw.Buf[b-1] == ':' || (b >= 2 && sw.Buf[b-1] == ' ' && sw.Buf[b-2] == ':') {
				sim.Probe("flush_between_key_and_value")
			}
		}
		if c.Deep && (c.Opt.Tab || c.Opt.Indent > 0) {
			sim.Probe("deep_indented_stream")
		}
		if deterministic {
			if string(sw.Buf) != mem {
				cx.Fail("C04/stream/"+api, fmt.Sprintf("WriteLimit=%d: io.Writer received %s ; in-memory text %s ; write calls %v", c.Limit, clip(string(sw.Buf)), clip(mem), clipCalls(sw.Calls)), attrs)
			}
			return
		}
		// member order is Go's map order: compare as trees plus equal length
		if len(sw.Buf) != len(mem) {
			cx.Fail("C04/stream/"+api, fmt.Sprintf("WriteLimit=%d: io.Writer received %d bytes, in-memory text has %d: %s ; %s", c.Limit, len(sw.Buf), len(mem), clip(string(sw.Buf)), clip(mem)), attrs)
			return
		}
		judgeText(api+"(streamed)", sw.Buf, false)
	}

	// ---- oj
	opt := c.Opt
	mem, p := guardStr(func() string { return oj.JSON(data, &opt) })
	cx.Exec()
	cx.BaselineDone()
	if p != nil {
		cx.Fail("C04/panic/oj.JSON", fmt.Sprint(p), attrs)
		return
	}
	sim.Probe("baseline_text_judged")
	judgeText("oj.JSON", []byte(mem), c.Opt.Sort)
	if c.Opt.Sort {
		opt2 := c.Opt
		mem2, _ := guardStr(func() string { return oj.JSON(data, &opt2) })
		cx.Exec()
		if mem2 != mem {
			cx.Fail("C04/sort-deterministic/oj.JSON", fmt.Sprintf("two calls differ: %s ; %s", clip(mem), clip(mem2)), attrs)
		}
	}
	{
		opt3 := c.Opt
		var out []byte
		var err error
		_, p := guardStr(func() string { out, err = oj.Marshal(data, &opt3); return "" })
		cx.Exec()
		switch {
		case p != nil:
			cx.Fail("C04/panic/oj.Marshal", fmt.Sprint(p), attrs)
		case err != nil:
			cx.Fail("C04/error/oj.Marshal", err.Error(), attrs)
		default:
			judgeText("oj.Marshal", out, c.Opt.Sort)
		}
		wr := &oj.Writer{Options: c.Opt}
		ws, p2 := guardStr(func() string { return wr.JSON(data) })
		cx.Exec()
		if p2 != nil {
			cx.Fail("C04/panic/oj.Writer.JSON", fmt.Sprint(p2), attrs)
		} else if deterministic && ws != mem {
			cx.Fail("C04/stream/oj.Writer.JSON-vs-oj.JSON", fmt.Sprintf("%s ; %s", clip(ws), clip(mem)), attrs)
		}
	}
	{
		optW := c.Opt
		optW.WriteLimit = c.Limit
		sw := ownedWriter(-1)
		var err error
		_, p := guardStr(func() string { defer sw.Done(); err = oj.Write(sw, data, &optW); return "" })
		cx.Exec()
		switch {
		case p != nil:
			cx.Fail("C04/panic/oj.Write", fmt.Sprint(p), attrs)
		case err != nil:
			cx.Fail("C04/error/oj.Write", err.Error(), attrs)
		default:
			sameText("oj.Write", mem, sw)
		}
		wr := &oj.Writer{Options: optW}
		sw2 := ownedWriter(-1)
		_, p = guardStr(func() string { defer sw2.Done(); err = wr.Write(sw2, data); return "" })
		cx.Exec()
		if p == nil && err == nil {
			sameText("oj.Writer.Write", mem, sw2)
		} else {
			cx.Fail("C04/error/oj.Writer.Write", fmt.Sprint(p, err), attrs)
		}
		if c.FailCall >= 0 {
			// fault configuration: the k-th Write call of the io.Writer fails
			swf := ownedWriter(c.FailCall)
			swf.Sticky = sim.Bool(cx.T, "sticky")
			swf.Short = sim.Bool(cx.T, "short")
			swf.Full = sim.Intn(cx.T, 3, "fullcount") == 2
			wrf := &oj.Writer{Options: optW}
			_, p = guardStr(func() string { defer swf.Done(); err = wrf.Write(swf, data); return "" })
			cx.Exec()
			if swf.FaultHit {
				sim.Fault("oj_writer_io_error")
				if p != nil {
					cx.Fail("C04/fault/oj.Writer.Write/panic", fmt.Sprint(p), attrs)
				} else if err == nil {
					cx.Fail("C04/fault/oj.Writer.Write/error-swallowed", fmt.Sprintf("write call %d failed but Write returned nil", c.FailCall), attrs)
				}
			}
		}
	}

	// ---- a Writer that was used before under other options writes what a fresh one writes
	if c.Prior != 0 {
		po := c.Opt
		po.WriteLimit = c.Limit
		if c.Prior&1 != 0 {
			po.Sort = !po.Sort
		}
		if c.Prior&2 != 0 {
			if po.Indent > 0 {
				po.Indent = 0
			} else {
				po.Indent = 3
			}
		}
		if c.Prior&4 != 0 {
			po.Tab = !po.Tab
		}
		if c.Prior&8 != 0 {
			po.OmitNil = !po.OmitNil
		}
		if c.Prior&16 != 0 {
			po.OmitEmpty = !po.OmitEmpty
		}
		if c.Prior&32 != 0 {
			po.HTMLUnsafe = !po.HTMLUnsafe
		}
		wr := &oj.Writer{Options: po}
		earlier := map[string]any{"b": []any{nil, "<x>", map[string]any{}}, "a": int64(1), "c": map[string]any{"z": nil, "y": ""}}
		var pd any = earlier
		if c.UseGen {
			pd = gens.ToGen(earlier)
		}
		if c.PriorWrite {
			_, _ = guardStr(func() string { _ = wr.Write(sim.NewSimWriter(-1), pd); return "" })
		} else {
			_, _ = guardStr(func() string { return wr.JSON(pd) })
		}
		cx.Exec()
		now := c.Opt
		now.WriteLimit = c.Limit
		if c.PriorWhole {
			wr.Options = now
		} else {
			wr.Sort, wr.Indent, wr.Tab, wr.OmitNil, wr.OmitEmpty, wr.HTMLUnsafe = now.Sort, now.Indent, now.Tab, now.OmitNil, now.OmitEmpty, now.HTMLUnsafe
		}
		ws, p := guardStr(func() string { return wr.JSON(data) })
		cx.Exec()
		switch {
		case p != nil:
			cx.Fail("C04/panic/oj.Writer.JSON(used writer)", fmt.Sprint(p), attrs)
		case deterministic && ws != mem:
			cx.Fail("C04/used-writer/oj.Writer.JSON", fmt.Sprintf("a Writer used before under other options writes %s ; a fresh one %s", clip(ws), clip(mem)), attrs)
		default:
			judgeText("oj.Writer.JSON(used writer)", []byte(ws), c.Opt.Sort)
		}
		sw := ownedWriter(-1)
		var err error
		_, p = guardStr(func() string { defer sw.Done(); err = wr.Write(sw, data); return "" })
		cx.Exec()
		if p != nil || err != nil {
			cx.Fail("C04/error/oj.Writer.Write(used writer)", fmt.Sprint(p, err), attrs)
		} else {
			sameText("oj.Writer.Write(used writer)", mem, sw)
		}
	}

	// ---- pretty
	parg := float64(c.Width) + float64(c.MaxDepth)/10.0
	optP := c.Opt
	pmem, p := guardStr(func() string { return pretty.JSON(data, parg, c.Align, &optP) })
	cx.Exec()
	if p != nil {
		cx.Fail("C04/panic/pretty.JSON", fmt.Sprint(p), attrs)
		return
	}
	// pretty always sorts object members; with Sort the property asks for ascending key order
	judgeText("pretty.JSON", []byte(pmem), c.Opt.Sort)
	{
		optP2 := c.Opt
		pmem2, _ := guardStr(func() string { return pretty.JSON(data, parg, c.Align, &optP2) })
		cx.Exec()
		if pmem2 != pmem {
			cx.Fail("C04/sort-deterministic/pretty.JSON", fmt.Sprintf("two calls differ: %s ; %s", clip(pmem), clip(pmem2)), attrs)
		}
	}
	{
		optPW := c.Opt
		optPW.WriteLimit = c.Limit
		sw := ownedWriter(-1)
		var err error
		_, p := guardStr(func() string { defer sw.Done(); err = pretty.WriteJSON(sw, data, parg, c.Align, &optPW); return "" })
		cx.Exec()
		switch {
		case p != nil:
			cx.Fail("C04/panic/pretty.WriteJSON", fmt.Sprint(p), attrs)
		case err != nil:
			cx.Fail("C04/error/pretty.WriteJSON", err.Error(), attrs)
		default:
			cx.Steps(len(sw.Calls))
			if len(sw.Calls) >= 3 {
				cx.NonTrivial()
			}
			if string(sw.Buf) != pmem {
				cx.Fail("C04/stream/pretty.WriteJSON", fmt.Sprintf("WriteLimit=%d: io.Writer received %s ; in-memory text %s", c.Limit, clip(string(sw.Buf)), clip(pmem)), attrs)
			}
		}
		if c.FailCall >= 0 {
			swf := ownedWriter(c.FailCall)
			swf.Short = sim.Bool(cx.T, "short")
			swf.Full = sim.Intn(cx.T, 3, "fullcount") == 2
			_, p = guardStr(func() string { defer swf.Done(); err = pretty.WriteJSON(swf, data, parg, c.Align, &optPW); return "" })
			cx.Exec()
			if swf.FaultHit {
				sim.Fault("pretty_writer_io_error")
				if p != nil {
					cx.Fail("C04/fault/pretty.WriteJSON/panic", fmt.Sprint(p), attrs)
				} else if err == nil {
					cx.Fail("C04/fault/pretty.WriteJSON/error-swallowed", fmt.Sprintf("write call %d failed but WriteJSON returned nil", c.FailCall), attrs)
				}
			}
		}
	}
}

func clipCalls(cs []sim.WriteRec) string {
	var parts []string
	for i, c := range cs {
		if i >= 12 {
			parts = append(parts, "…")
			break
		}
		parts = append(parts, fmt.Sprintf("%d+%d", c.Off, c.Len))
	}
	return strings.Join(parts, ",")
}

var _ = sort.Strings

var alignedTrailingComma = regexp.MustCompile(`, *\}`)

func TestC04(t *testing.T) { sim.Main(t, "C04", propC04) }
