package checks

import (
	"errors"
	"fmt"

	"github.com/ohler55/ojg/alt"
	"github.com/ohler55/ojg/gen"
	"github.com/ohler55/ojg/oj"
	"github.com/ohler55/ojg/sen"

	"verif/harness/sim"
)

// outcome of one execution of one front-end on one input under one delivery schedule.
type outcome struct {
	Name     string
	Docs     []any // delivered documents (single mode: the returned value, if no error)
	Err      error
	Panic    any
	Hung     bool
	Bounds   []int // where Read results ended
	Calls    int
	FaultHit bool // the reader returned its injected error
}

func (o *outcome) class() string {
	switch {
	case o.Hung:
		return "hang"
	case o.Panic != nil:
		return "panic"
	case o.Err != nil:
		return "error"
	}
	return "value"
}

func (o *outcome) pos() (line, col int, ok bool) {
	var pe *oj.ParseError
	if errors.As(o.Err, &pe) {
		return pe.Line, pe.Column, true
	}
	var ge *gen.ParseError
	if errors.As(o.Err, &ge) {
		return ge.Line, ge.Column, true
	}
	return 0, 0, false
}

func (o *outcome) String() string {
	switch o.class() {
	case "hang":
		return "hang"
	case "panic":
		return fmt.Sprintf("panic(%v)", o.Panic)
	case "error":
		return fmt.Sprintf("docs=%d error(%v)", len(o.Docs), o.Err)
	}
	return fmt.Sprintf("docs=%d", len(o.Docs))
}

const (
	modeSingle = 0
	modeCB     = 1
	modeChan   = 2
)

// builderHandler adapts oj.TokenHandler events to alt.Builder and splits documents at depth 0.
type builderHandler struct {
	b     alt.Builder
	key   string
	hasK  bool
	depth int
	docs  []any
	berr  error
	kinds []byte // open containers, to hold the event stream to the TokenHandler protocol
}

// protocol records a violation of the TokenHandler protocol (the adapter must not silently repair an
// ill-formed event stream: a key outside an object, two keys in a row, a member without key, a
// mismatched end).
func (h *builderHandler) protocol(what string) {
	if h.berr == nil {
		h.berr = fmt.Errorf("verif: ill-formed token stream: %s", what)
	}
}

func (h *builderHandler) top() byte {
	if len(h.kinds) == 0 {
		return 0
	}
	return h.kinds[len(h.kinds)-1]
}

func newBuilderHandler() *builderHandler {
	h := &builderHandler{}
	h.b.Reset()
	return h
}

func (h *builderHandler) note(err error) {
	if err != nil && h.berr == nil {
		h.berr = err
	}
}

func (h *builderHandler) done() {
	if h.depth == 0 {
		h.docs = append(h.docs, h.b.Result())
		if feBuilderReset {
			h.b.Reset() // one Builder for the whole token stream: earlier results must survive later documents
		} else {
			h.b = alt.Builder{}
			h.b.Reset()
		}
	}
}

func (h *builderHandler) val(v any) {
	if h.top() == '{' && !h.hasK {
		h.protocol("value in an object without a key")
	}
	if h.top() != '{' && h.hasK {
		h.protocol("key outside an object")
	}
	if h.hasK {
		h.hasK = false
		h.note(h.b.Value(v, h.key))
	} else {
		h.note(h.b.Value(v))
	}
	h.done()
}

func (h *builderHandler) Null()           { h.val(nil) }
func (h *builderHandler) Bool(v bool)     { h.val(v) }
func (h *builderHandler) Int(v int64)     { h.val(v) }
func (h *builderHandler) Float(v float64) { h.val(v) }
func (h *builderHandler) Number(v string) { h.val(jsonNumber(v)) }
func (h *builderHandler) String(v string) { h.val(v) }
func (h *builderHandler) Key(k string)    { h.key, h.hasK = k, true }
func (h *builderHandler) ObjectStart() {
	if h.top() == '{' && !h.hasK {
		h.protocol("object in an object without a key")
	}
	h.kinds = append(h.kinds, '{')
	if h.hasK {
		h.hasK = false
		h.note(h.b.Object(h.key))
	} else {
		h.note(h.b.Object())
	}
	h.depth++
}
func (h *builderHandler) ObjectEnd() {
	if h.top() != '{' {
		h.protocol("ObjectEnd without an open object")
		return
	}
	if h.hasK {
		h.protocol("ObjectEnd after a key without value")
		h.hasK = false
	}
	h.kinds = h.kinds[:len(h.kinds)-1]
	h.b.Pop()
	h.depth--
	h.done()
}
func (h *builderHandler) ArrayStart() {
	if h.top() == '{' && !h.hasK {
		h.protocol("array in an object without a key")
	}
	h.kinds = append(h.kinds, '[')
	if h.hasK {
		h.hasK = false
		h.note(h.b.Array(h.key))
	} else {
		h.note(h.b.Array())
	}
	h.depth++
}
func (h *builderHandler) ArrayEnd() {
	if h.top() != '[' {
		h.protocol("ArrayEnd without an open array")
		return
	}
	h.kinds = h.kinds[:len(h.kinds)-1]
	h.b.Pop()
	h.depth--
	h.done()
}

func run(name string, rd *sim.SimReader, f func(o *outcome)) *outcome {
	o := &outcome{Name: name}
	feStreamed = rd != nil
	o.Panic, o.Hung = sim.Guard(func() { f(o) })
	for _, stop := range feStops {
		stop()
	}
	feStops = feStops[:0]
	if rd != nil {
		o.Bounds = rd.Bounds
		o.Calls = rd.Calls
		o.FaultHit = rd.FaultHit
		if rd.Hung {
			o.Hung = true
		}
	}
	return o
}

// collect builds the args of a multi-document parse and the function that returns what was delivered.
func collectAny(mode int, n int) (args []any, get func() []any) {
	switch mode {
	case modeCB:
		var docs []any
		return []any{func(v any) bool {
			if feReuse {
				v = copyAny(v)
			}
			docs = append(docs, v)
			return false
		}}, func() []any { return docs }
	case modeChan:
		if feChanCap >= 0 && feStreamed {
			return boundedCollect(make(chan any, feChanCap), func(v any) any { return v })
		}
		ch := make(chan any, n+2)
		return []any{ch}, func() []any {
			var docs []any
			for {
				select {
				case v := <-ch:
					docs = append(docs, v)
				default:
					return docs
				}
			}
		}
	}
	return nil, nil
}

// feChanCap: in channel mode the result channel has this capacity and is served by the simulator's consumer (sim.Consumer),
// which takes a document only when the call is stalled in a send; -1: a channel with room for every document, read after
// the call. The sequence of documents delivered must not depend on it.
var feChanCap = -1

// feStreamed: the execution in progress reads from a simulated reader. The []byte entry points - the baseline the streamed
// executions are compared with - keep the channel with room for everything.
var feStreamed bool

// consumers still running for the execution in progress (run ends them if the call did not return normally)
var feStops []func()

func boundedCollect[T any](ch chan T, conv func(T) any) (args []any, get func() []any) {
	c := sim.StartConsumer(ch)
	var docs []any
	finished := false
	get = func() []any {
		if finished {
			return docs
		}
		finished = true
		got, stalls := c.Finish()
		for _, v := range got {
			docs = append(docs, conv(v))
		}
		if stalls > 0 {
			sim.ProbeN("producer_stalled_on_full_channel", stalls)
		}
		if late := sim.DrainStray(ch); late > 0 {
			// not delivered by the time the call returned: not part of what the call delivered, and a disagreement in itself
			docs = append(docs, fmt.Sprintf("<%d document(s) reached the channel after the call had returned>", late))
		}
		return docs
	}
	feStops = append(feStops, func() { get() })
	return []any{ch}, get
}

// feUsed selects the history of the parser objects the executors use: 0 a fresh object (the zero value),
// 1 one that has parsed another document before, 2 one whose previous call failed in the middle of a
// streamed document, 3 one whose previous call failed after a complete first document. The agreement of
// the front-ends must not depend on it.
var feUsed int

// feReuse sets the Reuse option of the parsers that have one. Reused maps are only valid until the next
// document is parsed, so in callback mode the executors copy each document inside the callback; in channel
// mode the parsers switch Reuse off themselves and the documents are read after the call, as always.
var feReuse bool

// feBuilderReset: the adapter keeps one alt.Builder for a whole token stream and calls Reset between documents
// (else a new Builder per document).
var feBuilderReset bool

var (
	// (with line feeds and multi-byte characters: the line / column bookkeeping has a past too)
	usedOK   = []byte("{\"secret\":[1,2,3],\n\n\"k\":\"earlier \\u00e9 é string\",\r\n  \"n\":-12.5e3}\n")
	usedMid  = []byte("{\"secret\":\n[1,\n2,\n   \"unfinished é \\u00")
	usedTail = []byte("[true,\n{\"x\":null}]\n\n  }")
)

func usedDoc() ([]byte, bool) {
	switch feUsed {
	case 1:
		return usedOK, false
	case 2:
		return usedMid, true
	case 3:
		return usedTail, false
	}
	return nil, false
}

func earlierReader(d []byte) *sim.SimReader {
	return sim.NewSimReader(d, &sim.Schedule{Style: "every", Every: 3, FailAt: -1})
}

func newOJParser() *oj.Parser {
	p := &oj.Parser{Reuse: feReuse}
	if d, stream := usedDoc(); d != nil {
		if stream {
			_, _ = p.ParseReader(earlierReader(d))
		} else {
			_, _ = p.Parse(append([]byte(nil), d...))
		}
	}
	return p
}

func newGenParser() *gen.Parser {
	p := &gen.Parser{Reuse: feReuse}
	if d, stream := usedDoc(); d != nil {
		if stream {
			_, _ = p.ParseReader(earlierReader(d))
		} else {
			_, _ = p.Parse(append([]byte(nil), d...))
		}
	}
	return p
}

func newSenParser() *sen.Parser {
	p := &sen.Parser{Reuse: feReuse}
	p.AddMongoFuncs()
	if d, stream := usedDoc(); d != nil {
		if stream {
			_, _ = p.ParseReader(earlierReader(d))
		} else {
			_, _ = p.Parse(append([]byte(nil), d...))
		}
	}
	return p
}

func newOJTok() *oj.Tokenizer {
	t := &oj.Tokenizer{}
	if d, stream := usedDoc(); d != nil {
		if stream {
			_ = t.Load(earlierReader(d), newBuilderHandler())
		} else {
			_ = t.Parse(append([]byte(nil), d...), newBuilderHandler())
		}
	}
	return t
}

func newSenTok() *sen.Tokenizer {
	t := &sen.Tokenizer{}
	if d, stream := usedDoc(); d != nil {
		if stream {
			_ = t.Load(earlierReader(d), newBuilderHandler())
		} else {
			_ = t.Parse(append([]byte(nil), d...), newBuilderHandler())
		}
	}
	return t
}

func newOJValidator() *oj.Validator {
	v := &oj.Validator{}
	if d, stream := usedDoc(); d != nil {
		if stream {
			_ = v.ValidateReader(earlierReader(d))
		} else {
			_ = v.Validate(append([]byte(nil), d...))
		}
	}
	v.OnlyOne = true
	return v
}

// returned: in the multi-document modes the documents go to the callback or channel; whatever the call
// returns besides is part of the outcome too (nothing, for every front-end)
func returned(docs []any, v any) []any {
	if v != nil {
		docs = append(docs, []any{"<returned value>", v})
	}
	return docs
}

// copyAny copies the containers of a simple tree (the harness's own copy: alt.Dup would also convert).
func copyAny(v any) any {
	switch tv := v.(type) {
	case []any:
		out := make([]any, len(tv))
		for i, e := range tv {
			out[i] = copyAny(e)
		}
		return out
	case map[string]any:
		out := make(map[string]any, len(tv))
		for k, e := range tv {
			out[k] = copyAny(e)
		}
		return out
	}
	return v
}

func ojParse(b []byte, mode int) *outcome {
	return run("oj.Parser.Parse", nil, func(o *outcome) {
		p := newOJParser()
		args, get := collectAny(mode, len(b))
		v, err := p.Parse(append([]byte(nil), b...), args...)
		o.Err = err
		if get != nil {
			o.Docs = returned(get(), v)
		} else if err == nil {
			o.Docs = []any{v}
		}
	})
}

func ojParseReader(b []byte, s *sim.Schedule, mode int) *outcome {
	rd := sim.NewSimReader(b, s)
	return run("oj.Parser.ParseReader", rd, func(o *outcome) {
		p := newOJParser()
		args, get := collectAny(mode, len(b))
		v, err := p.ParseReader(rd, args...)
		o.Err = err
		if get != nil {
			o.Docs = returned(get(), v)
		} else if err == nil {
			o.Docs = []any{v}
		}
	})
}

func tokDocs(h *builderHandler, err error, mode int, o *outcome) {
	o.Err = err
	if o.Err == nil && h.berr != nil {
		o.Err = h.berr
	}
	if mode == modeSingle {
		if o.Err == nil {
			if len(h.docs) > 0 {
				o.Docs = []any{h.docs[0]}
			} else {
				o.Docs = []any{nil}
			}
		}
		return
	}
	o.Docs = h.docs
}

func ojTokParse(b []byte, mode int) *outcome {
	return run("oj.Tokenizer.Parse+Builder", nil, func(o *outcome) {
		t := newOJTok()
		t.OnlyOne = mode == modeSingle
		h := newBuilderHandler()
		err := t.Parse(append([]byte(nil), b...), h)
		tokDocs(h, err, mode, o)
	})
}

func ojTokLoad(b []byte, s *sim.Schedule, mode int) *outcome {
	rd := sim.NewSimReader(b, s)
	return run("oj.Tokenizer.Load+Builder", rd, func(o *outcome) {
		t := newOJTok()
		t.OnlyOne = mode == modeSingle
		h := newBuilderHandler()
		err := t.Load(rd, h)
		tokDocs(h, err, mode, o)
	})
}

func collectGen(mode int, n int) (args []any, get func() []any) {
	switch mode {
	case modeCB:
		var docs []any
		return []any{func(v gen.Node) bool {
			if feReuse && v != nil {
				v = v.Dup()
			}
			docs = append(docs, v)
			return false
		}}, func() []any { return docs }
	case modeChan:
		if feChanCap >= 0 && feStreamed {
			return boundedCollect(make(chan gen.Node, feChanCap), func(v gen.Node) any { return v })
		}
		ch := make(chan gen.Node, n+2)
		return []any{ch}, func() []any {
			var docs []any
			for {
				select {
				case v := <-ch:
					docs = append(docs, v)
				default:
					return docs
				}
			}
		}
	}
	return nil, nil
}

func genParse(b []byte, mode int) *outcome {
	return run("gen.Parser.Parse", nil, func(o *outcome) {
		p := newGenParser()
		args, get := collectGen(mode, len(b))
		v, err := p.Parse(append([]byte(nil), b...), args...)
		o.Err = err
		if get != nil {
			o.Docs = returned(get(), nodeAny(v))
		} else if err == nil {
			o.Docs = []any{nodeAny(v)}
		}
	})
}

func genParseReader(b []byte, s *sim.Schedule, mode int) *outcome {
	rd := sim.NewSimReader(b, s)
	return run("gen.Parser.ParseReader", rd, func(o *outcome) {
		p := newGenParser()
		args, get := collectGen(mode, len(b))
		v, err := p.ParseReader(rd, args...)
		o.Err = err
		if get != nil {
			o.Docs = returned(get(), nodeAny(v))
		} else if err == nil {
			o.Docs = []any{nodeAny(v)}
		}
	})
}

// nodeAny turns a nil gen.Node interface into a nil any.
func nodeAny(n gen.Node) any {
	if n == nil {
		return nil
	}
	return n
}

func senParse(b []byte, mode int) *outcome {
	return run("sen.Parser.Parse", nil, func(o *outcome) {
		p := newSenParser()
		args, get := collectAny(mode, len(b))
		v, err := p.Parse(append([]byte(nil), b...), args...)
		o.Err = err
		if get != nil {
			o.Docs = returned(get(), v)
		} else if err == nil {
			o.Docs = []any{v}
		}
	})
}

func senParseReader(b []byte, s *sim.Schedule, mode int) *outcome {
	rd := sim.NewSimReader(b, s)
	return run("sen.Parser.ParseReader", rd, func(o *outcome) {
		p := newSenParser()
		args, get := collectAny(mode, len(b))
		v, err := p.ParseReader(rd, args...)
		o.Err = err
		if get != nil {
			o.Docs = returned(get(), v)
		} else if err == nil {
			o.Docs = []any{v}
		}
	})
}

func senTokParse(b []byte, mode int) *outcome {
	return run("sen.Tokenizer.Parse+Builder", nil, func(o *outcome) {
		t := newSenTok()
		t.OnlyOne = mode == modeSingle
		h := newBuilderHandler()
		err := t.Parse(append([]byte(nil), b...), h)
		tokDocs(h, err, mode, o)
	})
}

func senTokLoad(b []byte, s *sim.Schedule, mode int) *outcome {
	rd := sim.NewSimReader(b, s)
	return run("sen.Tokenizer.Load+Builder", rd, func(o *outcome) {
		t := newSenTok()
		t.OnlyOne = mode == modeSingle
		h := newBuilderHandler()
		err := t.Load(rd, h)
		tokDocs(h, err, mode, o)
	})
}

func ojValidate(b []byte) *outcome {
	return run("oj.Validator.Validate", nil, func(o *outcome) {
		v := newOJValidator()
		o.Err = v.Validate(append([]byte(nil), b...))
	})
}

func ojValidateReader(b []byte, s *sim.Schedule) *outcome {
	rd := sim.NewSimReader(b, s)
	return run("oj.Validator.ValidateReader", rd, func(o *outcome) {
		v := newOJValidator()
		o.Err = v.ValidateReader(rd)
	})
}

// ---- package-level variants (thin wrappers, pooled instances): each must give what its sibling above gives

func mustGuard(o *outcome, f func()) {
	defer func() {
		if r := recover(); r != nil {
			if e, ok := r.(error); ok {
				o.Err = e // the Must* variants report through a panic carrying the error
				return
			}
			panic(r)
		}
	}()
	f()
}

// pkgVariant runs the k-th package-level variant of family fam ("oj", "ojtok", "ojval", "sen", "sentok").
func pkgVariant(fam string, k int, b []byte, s *sim.Schedule, mode int) *outcome {
	var rd *sim.SimReader
	finish := func(o *outcome, v any, get func() []any) {
		if get != nil {
			o.Docs = returned(get(), v)
		} else if o.Err == nil {
			o.Docs = []any{v}
		}
	}
	switch fam {
	case "oj":
		names := []string{"oj.Parse", "oj.ParseString", "oj.MustParse", "oj.MustParseString", "oj.Load", "oj.MustLoad"}
		k %= len(names)
		if k >= 4 {
			rd = sim.NewSimReader(b, s)
		}
		return run(names[k], rd, func(o *outcome) {
			args, get := collectAny(mode, len(b))
			var v any
			switch k {
			case 0:
				v, o.Err = oj.Parse(append([]byte(nil), b...), args...)
			case 1:
				v, o.Err = oj.ParseString(string(b), args...)
			case 2:
				mustGuard(o, func() { v = oj.MustParse(append([]byte(nil), b...), args...) })
			case 3:
				mustGuard(o, func() { v = oj.MustParseString(string(b), args...) })
			case 4:
				v, o.Err = oj.Load(rd, args...)
			default:
				mustGuard(o, func() { v = oj.MustLoad(rd, args...) })
			}
			finish(o, v, get)
		})
	case "sen":
		names := []string{"sen.Parse", "sen.MustParse", "sen.ParseReader", "sen.MustParseReader"}
		k %= len(names)
		if k >= 2 {
			rd = sim.NewSimReader(b, s)
		}
		return run(names[k], rd, func(o *outcome) {
			args, get := collectAny(mode, len(b))
			var v any
			switch k {
			case 0:
				v, o.Err = sen.Parse(append([]byte(nil), b...), args...)
			case 1:
				mustGuard(o, func() { v = sen.MustParse(append([]byte(nil), b...), args...) })
			case 2:
				v, o.Err = sen.ParseReader(rd, args...)
			default:
				mustGuard(o, func() { v = sen.MustParseReader(rd, args...) })
			}
			finish(o, v, get)
		})
	case "ojtok", "sentok":
		names := []string{fam[:len(fam)-3] + ".Tokenize", fam[:len(fam)-3] + ".TokenizeString", fam[:len(fam)-3] + ".TokenizeLoad"}
		k %= len(names)
		if k == 2 {
			rd = sim.NewSimReader(b, s)
		}
		return run(names[k], rd, func(o *outcome) {
			h := newBuilderHandler()
			var err error
			switch {
			case fam == "ojtok" && k == 0:
				err = oj.Tokenize(append([]byte(nil), b...), h)
			case fam == "ojtok" && k == 1:
				err = oj.TokenizeString(string(b), h)
			case fam == "ojtok":
				err = oj.TokenizeLoad(rd, h)
			case k == 0:
				err = sen.Tokenize(append([]byte(nil), b...), h)
			case k == 1:
				err = sen.TokenizeString(string(b), h)
			default:
				err = sen.TokenizeLoad(rd, h)
			}
			tokDocs(h, err, modeCB, o) // (the package-level tokenize functions take every document of the input)
		})
	default: // "ojval"
		names := []string{"oj.Validate", "oj.ValidateString", "oj.ValidateReader"}
		k %= len(names)
		if k == 2 {
			rd = sim.NewSimReader(b, s)
		}
		return run(names[k], rd, func(o *outcome) {
			switch k {
			case 0:
				o.Err = oj.Validate(append([]byte(nil), b...))
			case 1:
				o.Err = oj.ValidateString(string(b))
			default:
				o.Err = oj.ValidateReader(rd)
			}
		})
	}
}
