package checks

import (
	"fmt"
	"sort"
	"strings"
	"testing"

	"pgregory.net/rapid"

	"github.com/ohler55/ojg/jp"
	"github.com/ohler55/ojg/oj"
	"github.com/ohler55/ojg/sen"

	"verif/harness/gens"
	"verif/harness/ref"
	"verif/harness/sim"
)

// C17 — streaming Match equals parse-then-locate, however MatchLoad's reader is chunked.

type matchCase struct {
	Tree    *gens.ONode
	Input   []byte
	Targets []jp.Expr
	Feat    map[string]any
	Scheds  []*sim.Schedule
	Sweep   bool
	Fault   *sim.Schedule // fault configuration: the reader fails (non-EOF) at an offset
}

type hit struct {
	Path  string
	Value any
}

func (c *matchCase) render() any {
	var ts []string
	for _, t := range c.Targets {
		ts = append(ts, t.String())
	}
	var ss []string
	for _, s := range c.Scheds {
		ss = append(ss, s.String())
	}
	return map[string]any{"input": fmt.Sprintf("%q", c.Input), "targets": ts, "schedules": ss, "sweep": c.Sweep, "reader_fault": fmt.Sprint(c.Fault)}
}

type step struct {
	key   string
	idx   int
	isIdx bool
	size  int // size of the container the step indexes into
}

// randomWalk picks a root-to-node path in the tree.
func randomWalk(t *rapid.T, n *gens.ONode) []step {
	var steps []step
	for n.Kind != 's' && len(n.Kids) > 0 {
		if len(steps) > 0 && sim.Intn(t, 3, "stop") == 2 {
			break
		}
		i := sim.Intn(t, len(n.Kids), "kid")
		if n.Kind == 'a' {
			steps = append(steps, step{idx: i, isIdx: true, size: len(n.Kids)})
		} else {
			steps = append(steps, step{key: n.Keys[i], size: len(n.Kids)})
		}
		n = n.Kids[i]
	}
	return steps
}

var filterTemplates = []string{"[?(@ > 1)]", "[?(@.a == 1)]", "[?(@.b)]", "[?(@ == 'x')]", "[?(@.a > 0)]", "[?(@ != null)]", "[?(length(@) > 0)]"}

// drawTarget generalises a concrete walk into a target path and notes the features used.
func drawTarget(t *rapid.T, tree *gens.ONode, feat map[string]any) jp.Expr {
	steps := randomWalk(t, tree)
	x := jp.R()
	if len(steps) == 0 || sim.Intn(t, 25, "root") == 24 {
		feat["root_target"] = true
		return x
	}
	// descents may stand anywhere and more than once: each one swallows zero or more steps of the walk
	// (a target never ends in a bare descent)
	from := 0
	for i := from; i < len(steps); i++ {
		if sim.Intn(t, 6, "descent") == 5 {
			x = x.D()
			feat["descent"] = true
			if skip := len(steps) - 1 - i; skip > 0 {
				i += sim.Intn(t, skip+1, "dskip")
			}
		}
		s := steps[i]
		last := i == len(steps)-1
		kind := sim.Weighted(t, "frag", 8, 3, 3, 2, 2, 1)
		switch kind {
		case 1:
			x = x.W()
			feat["wildcard"] = true
		case 2: // union containing the step
			var members []any
			n := 1 + sim.Intn(t, 3, "ulen")
			pos := sim.Intn(t, n, "upos")
			for k := 0; k < n; k++ {
				switch {
				case k == pos && s.isIdx:
					members = append(members, int64(s.idx))
				case k == pos:
					members = append(members, s.key)
				case sim.Bool(t, "uint"):
					v := sim.Intn(t, 4, "uidx")
					members = append(members, int64(v))
				default:
					members = append(members, []string{"a", "b", "c", "zz"}[sim.Intn(t, 4, "ukey")])
				}
			}
			x = x.U(members...)
			feat["union"] = true
		case 3: // negative index equivalent
			if s.isIdx {
				x = x.N(s.idx - s.size)
				feat["negative_index"] = true
			} else {
				x = x.C(s.key)
			}
		case 4: // slice covering the index
			if s.isIdx {
				switch sim.Intn(t, 4, "slice") {
				case 0:
					x = append(x, jp.Slice{s.idx, s.idx + 1})
				case 1:
					x = append(x, jp.Slice{0, s.size, 1 + sim.Intn(t, 2, "step")})
				case 2:
					x = append(x, jp.Slice{s.idx - s.size})
				default:
					x = append(x, jp.Slice{s.idx, -1 - sim.Intn(t, 2, "nend")})
				}
				feat["slice"] = true
			} else {
				x = x.C(s.key)
			}
		case 5: // trailing filter instead of the last step
			if last {
				f := jp.MustParseString("$" + filterTemplates[sim.Intn(t, len(filterTemplates), "filter")])
				x = append(x, f[1:]...)
				feat["filter"] = true
			} else if s.isIdx {
				x = x.N(s.idx)
			} else {
				x = x.C(s.key)
			}
		default:
			if s.isIdx {
				x = x.N(s.idx)
			} else {
				x = x.C(s.key)
			}
		}
	}
	return x
}

func drawMatchCase(t *rapid.T) *matchCase {
	c := &matchCase{Feat: map[string]any{}}
	c.Tree = gens.OTree(t, 3)
	if sim.Intn(t, 10, "sized") == 9 {
		c.Tree = gens.OSized(t, gens.OTree(t, 2))
	}
	if c.Tree.Kind == 's' && sim.Intn(t, 4, "scalar-root") != 3 {
		// mostly containers at the root
		c.Tree = &gens.ONode{Kind: 'a', Kids: []*gens.ONode{c.Tree, gens.OTree(t, 2)}}
	}
	var b strings.Builder
	c.Tree.Render(t, &b)
	c.Input = []byte(b.String())
	nt := 1 + sim.Intn(t, 3, "ntargets")
	for i := 0; i < nt; i++ {
		c.Targets = append(c.Targets, drawTarget(t, c.Tree, c.Feat))
	}
	sc := ref.ScanJSON(c.Input)
	interior := ref.Interior(sc.Tokens, 256)
	k := 1 + sim.Intn(t, 3, "nsched")
	for i := 0; i < k; i++ {
		c.Scheds = append(c.Scheds, sim.DrawSchedule(t, len(c.Input), interior))
	}
	c.Sweep = len(c.Input) >= 2 && len(c.Input) <= 48 && sim.Intn(t, 4, "sweep") == 3
	if sim.Intn(t, 5, "readerfault") == 4 {
		c.Fault = sim.DrawSchedule(t, len(c.Input), nil)
		c.Fault.FailAt = sim.Intn(t, len(c.Input)+1, "failat")
		c.Fault.FailSticky = sim.Bool(t, "failsticky")
		c.Fault.FailKind = sim.Intn(t, len(sim.FailErrors), "failkind")
		c.Fault.FailData = sim.Bool(t, "failwithdata")
	}
	for _, f := range []string{"root_target", "descent", "wildcard", "union", "negative_index", "slice", "filter"} {
		if _, ok := c.Feat[f]; !ok {
			c.Feat[f] = false
		}
	}
	return c
}

// deepCopy copies a simple tree (the handler may go on using its containers).
func deepCopy(v any) any {
	switch tv := v.(type) {
	case []any:
		out := make([]any, len(tv))
		for i, e := range tv {
			out[i] = deepCopy(e)
		}
		return out
	case map[string]any:
		out := make(map[string]any, len(tv))
		for k, e := range tv {
			out[k] = deepCopy(e)
		}
		return out
	}
	return v
}

type matchOutcome struct {
	Name     string
	Hits     []hit
	Err      error
	Panic    any
	Hung     bool
	Bounds   []int
	Calls    int
	FaultHit bool
}

func runMatch(name string, rd *sim.SimReader, f func(cb func(jp.Expr, any)) error) *matchOutcome {
	o := &matchOutcome{Name: name}
	cb := func(p jp.Expr, v any) {
		o.Hits = append(o.Hits, hit{Path: p.String(), Value: deepCopy(v)})
	}
	o.Panic, o.Hung = sim.Guard(func() { o.Err = f(cb) })
	if rd != nil {
		o.Bounds, o.Calls = rd.Bounds, rd.Calls
		o.FaultHit = rd.FaultHit
		if rd.Hung {
			o.Hung = true
		}
	}
	return o
}

func hitsString(hs []hit) string {
	var b strings.Builder
	for i, h := range hs {
		if i > 0 {
			b.WriteString(" ; ")
		}
		fmt.Fprintf(&b, "%s=%s", h.Path, clip(ref.Exact(h.Value)))
	}
	return b.String()
}

// locateRef computes the reference list: for each target the located normalized paths, union,
// outermost only, document order; value = the node of the parsed document at that location.
func locateRef(c *matchCase, doc any) ([]hit, error) {
	type sel struct {
		path  jp.Expr
		order int
	}
	seen := map[string]jp.Expr{}
	for _, tg := range c.Targets {
		if len(tg) == 1 { // bare root: Locate returns nothing for it although Get returns the document
			seen["$"] = jp.R()
			continue
		}
		for _, loc := range tg.Locate(doc, 0) {
			seen[loc.String()] = loc
		}
	}
	var sels []sel
	for _, p := range seen {
		outer := false
		for _, q := range seen {
			if len(q) < len(p) && isPrefix(q, p) {
				outer = true
				break
			}
		}
		if outer {
			continue
		}
		ord, ok := postOrder(c.Tree, p)
		if !ok {
			return nil, fmt.Errorf("reference: located path %s does not exist in the document", p)
		}
		sels = append(sels, sel{p, ord})
	}
	sort.Slice(sels, func(i, j int) bool { return sels[i].order < sels[j].order })
	var out []hit
	for _, s := range sels {
		v, ok := walkSimple(doc, s.path)
		if !ok {
			return nil, fmt.Errorf("reference: cannot walk %s", s.path)
		}
		out = append(out, hit{Path: s.path.String(), Value: v})
	}
	return out, nil
}

// asImplemented rewrites a target into what the streaming matcher takes it for: every slice selects every element; a target
// with a negative index selects nothing (ok false).
func asImplemented(tg jp.Expr) (jp.Expr, bool) {
	out := make(jp.Expr, 0, len(tg))
	for _, f := range tg {
		switch tf := f.(type) {
		case jp.Nth:
			if tf < 0 {
				return nil, false
			}
		case jp.Slice:
			out = append(out, jp.Slice{0})
			continue
		case jp.Union:
			var keep []any
			for _, u := range tf {
				if i, ok := u.(int64); ok && i < 0 {
					continue
				}
				keep = append(keep, u)
			}
			if len(keep) == 0 {
				return nil, false
			}
			out = append(out, jp.Union(keep))
			continue
		}
		out = append(out, f)
	}
	return out, true
}

func isPrefix(q, p jp.Expr) bool {
	for i := range q {
		if q[i] != p[i] {
			return false
		}
	}
	return true
}

func fragsOf(p jp.Expr) jp.Expr {
	if len(p) > 0 {
		if _, ok := p[0].(jp.Root); ok {
			return p[1:]
		}
	}
	return p
}

// postOrder returns the index, in a post-order walk in textual order, of the node at path p.
func postOrder(tree *gens.ONode, p jp.Expr) (int, bool) {
	target := tree
	for _, f := range fragsOf(p) {
		switch tf := f.(type) {
		case jp.Child:
			if target.Kind != 'o' {
				return 0, false
			}
			found := false
			for i, k := range target.Keys {
				if k == string(tf) {
					target = target.Kids[i]
					found = true
					break
				}
			}
			if !found {
				return 0, false
			}
		case jp.Nth:
			if target.Kind != 'a' || int(tf) < 0 || int(tf) >= len(target.Kids) {
				return 0, false
			}
			target = target.Kids[int(tf)]
		default:
			return 0, false
		}
	}
	n := 0
	var found bool
	var res int
	var walk func(x *gens.ONode)
	walk = func(x *gens.ONode) {
		for _, k := range x.Kids {
			walk(k)
		}
		if x == target {
			found, res = true, n
		}
		n++
	}
	walk(tree)
	return res, found
}

func walkSimple(doc any, p jp.Expr) (any, bool) {
	v := doc
	for _, f := range fragsOf(p) {
		switch tf := f.(type) {
		case jp.Child:
			m, ok := v.(map[string]any)
			if !ok {
				return nil, false
			}
			if v, ok = m[string(tf)]; !ok {
				return nil, false
			}
		case jp.Nth:
			a, ok := v.([]any)
			if !ok || int(tf) < 0 || int(tf) >= len(a) {
				return nil, false
			}
			v = a[int(tf)]
		default:
			return nil, false
		}
	}
	return v, true
}

func propC17(cx *sim.Ctx) {
	sim.Declare([]string{"reference_has_matches", "reference_has_several_matches", "target_descent", "target_wildcard", "target_union", "target_negative_index", "target_slice", "target_filter", "target_root_target", "cut_inside_string", "cut_inside_number", "cut_inside_literal", "reference_unusable"}, []string{"reader_error_mid_stream"})
	c := drawMatchCase(cx.T)
	cx.Render(c.render)
	cx.Key(c.Input)
	for _, t := range c.Targets {
		cx.Key(t.String())
	}
	for _, s := range c.Scheds {
		cx.Key(s.String())
	}
	in := c.Input
	doc, err := oj.Parse(append([]byte(nil), in...))
	if err != nil {
		panic(fmt.Sprintf("harness: generated document does not parse: %v: %q", err, in))
	}
	want, rerr := locateRef(c, doc)
	if rerr != nil {
		// the evaluator the oracle leans on disagrees with the document: not this property's business
		sim.Probe("reference_unusable")
		return
	}
	allLocs := map[string]bool{}
	for _, tg := range c.Targets {
		if len(tg) == 1 {
			allLocs["$"] = true
			continue
		}
		for _, loc := range tg.Locate(doc, 0) {
			allLocs[loc.String()] = true
		}
	}
	// the known filter limitation (only the first hit is reported, path and value taken from two
	// evaluations in different orders) can only show when some collected element has two or more hits
	filterMulti := false
	for _, tg := range c.Targets {
		for i, f := range tg {
			if _, ok := f.(*jp.Filter); ok {
				// (judged over every node of the document: PathMatch may hand the handler another element
				// than the one the part in front of the filter denotes - slices, negative indexes)
				rest := tg[i:]
				var visit func(v any)
				visit = func(v any) {
					if len(rest.Locate(v, 0)) >= 2 {
						filterMulti = true
					}
					switch tv := v.(type) {
					case []any:
						for _, e := range tv {
							visit(e)
						}
					case map[string]any:
						for _, e := range tv {
							visit(e)
						}
					}
				}
				visit(doc)
				break
			}
		}
	}
	// The two known findings about array fragments are exact statements of what the streaming matcher does instead: a slice
	// is read as "every element", a negative index never matches. asImpl is parse-then-locate under that reading; a run with
	// such a target that differs from it as well shows something else than the known finding. (Not judged when a filter
	// target is present: its own findings get in the way.)
	var asImpl []hit
	judgeAsImpl := false
	if (c.Feat["slice"] == true || c.Feat["negative_index"] == true) && c.Feat["filter"] != true {
		c2 := *c
		c2.Targets = nil
		for _, tg := range c.Targets {
			if r, ok := asImplemented(tg); ok {
				c2.Targets = append(c2.Targets, r)
			}
		}
		if w2, err2 := locateRef(&c2, doc); err2 == nil {
			asImpl, judgeAsImpl = w2, true
		}
	}
	var cur *matchOutcome
	differsAsImpl := func() bool {
		if !judgeAsImpl || cur == nil {
			return false
		}
		if len(cur.Hits) != len(asImpl) {
			return true
		}
		for i := range asImpl {
			if cur.Hits[i].Path != asImpl[i].Path {
				return true
			}
			if ok, _ := ref.SameValue(cur.Hits[i].Value, asImpl[i].Value); !ok {
				return true
			}
		}
		return false
	}
	attrs := func(extra ...any) map[string]any {
		m := map[string]any{}
		for k, v := range c.Feat {
			m[k] = v
		}
		m["differs_from_slice_and_negative_index_reading"] = differsAsImpl()
		m["filter_multi_match"] = filterMulti
		m["filter_with_other_targets"] = c.Feat["filter"] == true && len(c.Targets) >= 2
		m["maxint_boundary_literal"] = hasMaxIntBoundaryLiteral(in)
		for i := 0; i+1 < len(extra); i += 2 {
			m[extra[i].(string)] = extra[i+1]
		}
		return m
	}
	bad := func(o *matchOutcome) bool {
		if o.Hung || o.Panic != nil || o.Err != nil {
			what := "error"
			if o.Hung {
				what = "hang"
			} else if o.Panic != nil {
				what = "panic"
			}
			cx.Fail(fmt.Sprintf("C17/%s/%s", o.Name, what), fmt.Sprintf("panic=%v err=%v hung=%v", o.Panic, o.Err, o.Hung), attrs())
			return true
		}
		return false
	}
	// (ii) bytes entry points against parse-then-locate
	// plainLeafMissing: some scalar that a filter-less target selects (and that no selected container holds) got no
	// callback. The known incompleteness of filter targets concerns the containers they collect; a leaf is never
	// collected, so a leaf that a plain target selects must arrive whatever filter targets are listed beside it.
	plainLocs := map[string]bool{}
	var collected []string // locations of the elements the filter targets collect (the part in front of the filter)
	for _, tg := range c.Targets {
		plain := true
		for i, f := range tg {
			if _, ok := f.(*jp.Filter); ok {
				plain = false
				if i == 1 {
					collected = append(collected, "$")
				} else {
					for _, loc := range tg[:i].Locate(doc, 0) {
						collected = append(collected, loc.String())
					}
				}
				break
			}
		}
		if plain {
			if len(tg) == 1 {
				plainLocs["$"] = true
			}
			for _, loc := range tg.Locate(doc, 0) {
				plainLocs[loc.String()] = true
			}
		}
	}
	plainLeafMissing := func(o *matchOutcome) bool {
		got := map[string]bool{}
		for _, h := range o.Hits {
			got[h.Path] = true
		}
		for _, w := range want {
			switch w.Value.(type) {
			case []any, map[string]any:
				continue
			}
			inside := false // (a leaf inside a collected element is swallowed with it: the known finding)
			for _, p := range collected {
				if len(w.Path) > len(p) && strings.HasPrefix(w.Path, p) && (w.Path[len(p)] == '.' || w.Path[len(p)] == '[') {
					inside = true
				}
			}
			if plainLocs[w.Path] && !got[w.Path] && !inside {
				return true
			}
		}
		return false
	}
	vsRef := func(o *matchOutcome) {
		cx.Exec()
		cur = o
		defer func() { cur = nil }()
		if bad(o) {
			return
		}
		// soundness, judged independently of completeness: every callback names a location that some
		// target selects, with the value the document has there
		for _, h := range o.Hits {
			p, perr := jp.ParseString(h.Path)
			if perr != nil {
				cx.Fail(fmt.Sprintf("C17/reference/%s/unsound-path", o.Name), fmt.Sprintf("callback path %q does not parse: %v", h.Path, perr), attrs())
				break
			}
			if !allLocs[h.Path] {
				cx.Fail(fmt.Sprintf("C17/reference/%s/unsound-path", o.Name), fmt.Sprintf("callback for %s, which no target selects; callbacks: %s ; parse-then-locate: %s", h.Path, hitsString(o.Hits), hitsString(want)), attrs())
				break
			}
			v, ok := walkSimple(doc, p)
			if !ok {
				cx.Fail(fmt.Sprintf("C17/reference/%s/unsound-path", o.Name), fmt.Sprintf("callback for %s, which does not exist in the document", h.Path), attrs())
				break
			}
			if same, where := ref.SameValue(h.Value, v); !same {
				cx.Fail(fmt.Sprintf("C17/reference/%s/unsound-value", o.Name), fmt.Sprintf("callback for %s carries %s, the document has %s there (%s)", h.Path, clip(ref.Exact(h.Value)), clip(ref.Exact(v)), where), attrs())
				break
			}
		}
		if len(o.Hits) != len(want) {
			cx.Fail(fmt.Sprintf("C17/reference/%s/count", o.Name), fmt.Sprintf("callbacks: %s ; parse-then-locate: %s", hitsString(o.Hits), hitsString(want)), attrs("plain_target_leaf_missing", plainLeafMissing(o)))
			return
		}
		for i := range want {
			if o.Hits[i].Path != want[i].Path {
				cx.Fail(fmt.Sprintf("C17/reference/%s/path-or-order", o.Name), fmt.Sprintf("callbacks: %s ; parse-then-locate: %s", hitsString(o.Hits), hitsString(want)), attrs("plain_target_leaf_missing", plainLeafMissing(o)))
				return
			}
			if ok, where := ref.SameValue(o.Hits[i].Value, want[i].Value); !ok {
				cx.Fail(fmt.Sprintf("C17/reference/%s/value", o.Name), fmt.Sprintf("at %s (%s): callbacks: %s ; parse-then-locate: %s", want[i].Path, where, hitsString(o.Hits), hitsString(want)), attrs())
				return
			}
		}
	}
	// (i) reader entry points against the bytes entry point, exactly
	inside := false
	vsBytes := func(base, o *matchOutcome) {
		cx.Exec()
		cx.Steps(o.Calls)
		if bad(o) || base.Hung || base.Panic != nil || base.Err != nil {
			return
		}
		a, b := hitsString(o.Hits), hitsString(base.Hits)
		if a != b {
			cx.Fail(fmt.Sprintf("C17/chunking/%s~%s", o.Name, base.Name), fmt.Sprintf("chunked: %s ; bytes: %s", a, b), attrs())
		}
	}
	ojB := runMatch("oj.Match", nil, func(cb func(jp.Expr, any)) error {
		return oj.Match(append([]byte(nil), in...), cb, c.Targets...)
	})
	cx.BaselineDone()
	vsRef(ojB)
	senB := runMatch("sen.Match", nil, func(cb func(jp.Expr, any)) error {
		return sen.Match(append([]byte(nil), in...), cb, c.Targets...)
	})
	vsRef(senB)
	// the *String variants are their []byte siblings
	vsBytes(ojB, runMatch("oj.MatchString", nil, func(cb func(jp.Expr, any)) error { return oj.MatchString(string(in), cb, c.Targets...) }))
	vsBytes(senB, runMatch("sen.MatchString", nil, func(cb func(jp.Expr, any)) error { return sen.MatchString(string(in), cb, c.Targets...) }))
	scheds := c.Scheds
	if c.Sweep {
		scheds = append(append([]*sim.Schedule(nil), scheds...), sweepSchedules(len(in))...)
	}
	sc := ref.ScanJSON(in)
	sc17 := &streamCase{Input: in}
	for _, s := range scheds {
		rd := sim.NewSimReader(in, s)
		o := runMatch("oj.MatchLoad", rd, func(cb func(jp.Expr, any)) error { return oj.MatchLoad(rd, cb, c.Targets...) })
		vsBytes(ojB, o)
		if cutProbes(cx, sc17, sc.Tokens, 0, o.Bounds) {
			inside = true
		}
		rd2 := sim.NewSimReader(in, s)
		vsBytes(senB, runMatch("sen.MatchLoad", rd2, func(cb func(jp.Expr, any)) error { return sen.MatchLoad(rd2, cb, c.Targets...) }))
	}
	// fault configuration (judged separately): a reader that fails before the end of the document makes the
	// call fail - never a successful match of a shorter document -, without panic or hang, and the callbacks made
	// before the failure are the first callbacks of the fault-free run (missing is excused, wrong is not)
	if c.Fault != nil {
		faultedMatch := func(base, o *matchOutcome) {
			cx.Exec()
			cx.Steps(o.Calls)
			if !o.FaultHit {
				return
			}
			sim.Fault("reader_error_mid_stream")
			switch {
			case o.Hung || o.Panic != nil:
				cx.Fail(fmt.Sprintf("C17/reader-fault/%s/panic-or-hang", o.Name), fmt.Sprintf("%s: panic=%v hung=%v", c.Fault, o.Panic, o.Hung), attrs())
			case o.Err == nil:
				cx.Fail(fmt.Sprintf("C17/reader-fault/%s/error-swallowed", o.Name), fmt.Sprintf("%s: the reader failed but the call reports success; callbacks: %s", c.Fault, hitsString(o.Hits)), attrs())
			case base.Hung || base.Panic != nil || base.Err != nil:
			case len(o.Hits) > len(base.Hits) || hitsString(o.Hits) != hitsString(base.Hits[:len(o.Hits)]):
				cx.Fail(fmt.Sprintf("C17/reader-fault/%s/callbacks-not-a-prefix", o.Name), fmt.Sprintf("%s: callbacks before the failure: %s ; fault-free: %s", c.Fault, hitsString(o.Hits), hitsString(base.Hits)), attrs())
			}
		}
		rd := sim.NewSimReader(in, c.Fault)
		faultedMatch(ojB, runMatch("oj.MatchLoad", rd, func(cb func(jp.Expr, any)) error { return oj.MatchLoad(rd, cb, c.Targets...) }))
		rd2 := sim.NewSimReader(in, c.Fault)
		faultedMatch(senB, runMatch("sen.MatchLoad", rd2, func(cb func(jp.Expr, any)) error { return sen.MatchLoad(rd2, cb, c.Targets...) }))
	}
	if len(want) > 0 {
		sim.Probe("reference_has_matches")
	}
	if len(want) > 1 {
		sim.Probe("reference_has_several_matches")
	}
	for f, v := range c.Feat {
		if v == true {
			sim.Probe("target_" + f)
		}
	}
	if len(want) > 0 && inside {
		cx.NonTrivial()
	}
}

func TestC17(t *testing.T) { sim.Main(t, "C17", propC17) }
