package checks

import (
	"bytes"
	"errors"
	"fmt"
	"reflect"
	"strings"
	"testing"
	"time"

	"pgregory.net/rapid"

	"github.com/ohler55/ojg"
	"github.com/ohler55/ojg/alt"
	"github.com/ohler55/ojg/gen"
	"github.com/ohler55/ojg/oj"
	"github.com/ohler55/ojg/pretty"
	"github.com/ohler55/ojg/sen"
	vsync "github.com/ohler55/ojg/verifsync"

	"verif/harness/gens"
	"verif/harness/ref"
	"verif/harness/sim"
)

// C07 — reused and pooled parsers and writers behave like fresh ones.
//
// A case is a history of operations on a small set of long-lived subjects. It is executed twice:
// the reference pass restarts the world (pools, struct-plan caches, subjects) before every
// operation; the history pass restarts once at the beginning and lets the simulated sync.Pool
// decide which recycled instance each package-level call gets. Operation i must give the same
// canonical result in both passes (freshness), values returned earlier must not change
// afterwards (stability), and must not alias the caller's input buffer. Aborted calls
// (reader/writer errors, panicking callbacks/handlers/Simplifiers, process restart) are the
// injected faults; the aborted call itself is not judged, everything after it is.

type zInner struct {
	S string
	N int
	F float64
}

type zOuter struct {
	A   int
	In  zInner
	Ptr *zInner
	L   []zInner
	Any any
	Tg  string `json:"tg,omitempty"`
	B   bool
}

type zWrap struct {
	Name  string
	Outer *zOuter
	Inner zInner
}

// Types whose encoding methods have pointer receivers: which encoder a field gets then depends on whether the
// value is addressable, and the per-type field plans are cached across calls.
type zStamp struct{ Sec int }

func (s *zStamp) MarshalJSON() ([]byte, error) { return []byte(fmt.Sprintf(`"#%d"`, s.Sec)), nil }

type zText struct{ V string }

func (t *zText) MarshalText() ([]byte, error) { return []byte("txt:" + t.V), nil }

type zSimp struct{ V int }

func (s *zSimp) Simplify() any { return map[string]any{"simp": s.V} }

type zValM struct{ V int }

func (v zValM) MarshalJSON() ([]byte, error) { return []byte(fmt.Sprintf(`{"valm":%d}`, v.V)), nil }

type zItem struct {
	Stamp zStamp
	Txt   zText
	Simp  zSimp
	Val   zValM
	PS    *zStamp
	N     int
}

type zBox struct {
	Item  zItem
	Items []zItem
	M     map[string]zItem
	P     *zItem
	A     [2]zItem
	PL    []*zItem
}

// (holders that reach zItem in one way only: which holder is written first decides how the cached plan of
// zItem comes to be built)
type zBoxV struct {
	Item  zItem
	Items []zItem
}

type zBoxA struct{ A [2]zItem }

type zBoxM struct{ M map[string]zItem }

type zBoxP struct{ P *zItem }

// (an item whose only self-encoding member has a value receiver - like a time.Time member -, and its holder)
type zItemV struct {
	Val zValM
	At  time.Time
	N   int
}

type zBoxVV struct {
	Item  zItemV
	Items []zItemV
}

// zNest encodes itself by calling the package-level (pooled) functions again: two pooled instances are in use at
// the same moment without any concurrency.
type zNest struct {
	Inner any
	How   int
}

func (n zNest) MarshalJSON() ([]byte, error) {
	switch n.How % 3 {
	case 0:
		return oj.Marshal(n.Inner)
	case 1:
		return []byte(oj.JSON(n.Inner)), nil
	default:
		var b strings.Builder
		err := oj.Write(&b, n.Inner)
		return []byte(b.String()), err
	}
}

// Fields of named non-struct types (type Celsius float32): the by-offset and the reflection accessors must agree on them.
type (
	zCelsius float32
	zLevel   int
	zName    string
	zFlag    bool
	zCount   uint16
)

type zReading struct {
	C  zCelsius
	L  zLevel
	N  zName
	F  zFlag
	U  zCount
	OC zCelsius `json:"oc,omitempty"`
}

type zReadingBox struct {
	R  zReading
	Rs []zReading
}

// zTagList and the structs that embed a named type other than a struct (nothing to promote: a field named after the type).
type zEmbLevel struct {
	zLevel // (not exported: skipped)
	ZLevelX
	ZTags
	Name string
}

type (
	ZLevelX int
	ZTags   []string
)

// boom is a Simplifier that panics while it is being written when armed.
type boom struct {
	Armed bool
	V     any
}

func (b *boom) Simplify() any {
	if b.Armed {
		panic(errors.New("verif: injected Simplifier panic"))
	}
	return b.V
}

type op07 struct {
	Subj     string
	Fn       string
	Input    []byte
	Sched    *sim.Schedule
	Mode     int
	Conv     int // -1: none
	Reuse    bool
	OnlyOne  bool
	PanicAt  int // callback / handler event index at which caller code panics; -1 never
	Value    any
	ValDesc  string
	Opt      ojg.Options
	Limit    int
	FailCall int
	Faulty   bool // any injected fault configured
	IsParse  bool
	HasBoom  bool // the value contains an armed panicking Simplifier
	Keep     bool // the caller leaves the Writer's options as they are (the previous call's; Opt/Limit/Mode hold their resolved values for the fresh instance)
	BadOpt   bool // an argument of an unsupported type follows the other options (the call is rejected before it parses)
	ChanCap  int  // channel mode: capacity of the result channel, served by the simulator's consumer (sim.ConsumeBounded); -1: room for every document
}

func (o *op07) String() string {
	var b strings.Builder
	fmt.Fprintf(&b, "%s.%s", o.Subj, o.Fn)
	if o.IsParse {
		in := string(o.Input)
		if len(in) > 80 {
			in = in[:60] + "…"
		}
		fmt.Fprintf(&b, " input=%q mode=%d conv=%d reuse=%v onlyOne=%v", in, o.Mode, o.Conv, o.Reuse, o.OnlyOne)
		if o.BadOpt {
			b.WriteString(" +unsupported option argument")
		}
		if o.ChanCap >= 0 {
			fmt.Fprintf(&b, " chanCap=%d", o.ChanCap)
		}
	}
	if o.Sched != nil {
		fmt.Fprintf(&b, " sched={%s}", o.Sched)
	}
	if o.ValDesc != "" {
		v := o.ValDesc
		if len(v) > 160 {
			v = v[:140] + "…"
		}
		fmt.Fprintf(&b, " value=%s opts={Indent=%d Tab=%v Sort=%v OmitNil=%v OmitEmpty=%v UseTags=%v KeyExact=%v NestEmbed=%v Color=%v TimeMap=%v CreateKey=%q FullTypePath=%v TimeWrap=%q TimeFormat=%q BytesAs=%d HTMLUnsafe=%v} limit=%d failCall=%d", v, o.Opt.Indent, o.Opt.Tab, o.Opt.Sort, o.Opt.OmitNil, o.Opt.OmitEmpty, o.Opt.UseTags, o.Opt.KeyExact, o.Opt.NestEmbed, o.Opt.Color, o.Opt.TimeMap, o.Opt.CreateKey, o.Opt.FullTypePath, o.Opt.TimeWrap, o.Opt.TimeFormat, o.Opt.BytesAs, o.Opt.HTMLUnsafe, o.Limit, o.FailCall)
	}
	if o.Keep {
		b.WriteString(" (options left as they are)")
	}
	if strings.Contains(o.Subj, "pretty") {
		fmt.Fprintf(&b, " width=%d maxDepth=%d align=%v sen=%v", []int{80, 40, 20, 10}[o.Mode%4], 1+o.Mode/4%4, o.Mode/16%2 == 1, o.Mode/32%2 == 1)
	}
	if o.PanicAt >= 0 {
		fmt.Fprintf(&b, " callerPanicAt=%d", o.PanicAt)
	}
	return b.String()
}

type world07 struct {
	ojP   *oj.Parser
	ojV   *oj.Validator
	ojT   *oj.Tokenizer
	ojW   *oj.Writer
	genP  *gen.Parser
	senP  *sen.Parser
	senT  *sen.Tokenizer
	senW  *sen.Writer
	prW   *pretty.Writer
	fresh bool // reference pass: a new world for this one call
}

func newWorld07() *world07 {
	return &world07{
		ojP: &oj.Parser{}, ojV: &oj.Validator{}, ojT: &oj.Tokenizer{}, ojW: &oj.Writer{Options: ojg.DefaultOptions},
		genP: &gen.Parser{}, senP: &sen.Parser{}, senT: &sen.Tokenizer{}, senW: &sen.Writer{Options: ojg.DefaultOptions},
		prW: &pretty.Writer{Options: ojg.DefaultOptions, Width: 80, MaxDepth: 3},
	}
}

type res07 struct {
	Writer   *sim.SimWriter // the io.Writer handed to this call; must not be written to after the call returned
	Canon    string
	Aborted  bool   // an injected fault fired in this call: its own result is not judged
	Retained []any  // values returned to the caller, to be re-inspected later
	Buffer   []byte // a result documented as the subject's own buffer: valid until the next call on that subject
	Volatile bool   // result documented as reusable (Reuse option): not re-inspected
	cleanup  func() // ends the consumer of a bounded result channel, whichever way the call ended
	Snap     string // snapshot of Retained when exec returned (history pass)
	Late     int    // documents that reached a bounded result channel only after the call had returned
	Aliased  string // the returned values changed when the caller overwrote its input buffer (was -> now)
	Err      error  // the error the call returned: a returned value like any other, re-inspected later
}

// errText is what a caller can read off an error value later: its type, its text and, for a parse error, its fields.
func errText(err error) string {
	s := fmt.Sprintf("%T: %s", err, err.Error())
	var pe *oj.ParseError
	if errors.As(err, &pe) && pe != nil {
		s += fmt.Sprintf(" {Message:%q Line:%d Column:%d}", pe.Message, pe.Line, pe.Column)
	}
	return s
}

type keptErr struct{ err error }

var parseInputs = [][]byte{
	[]byte(`{"a":1,"b":[true,null,"x"],"c":{"d":1.5}}`), []byte(`[1,2,3]`), []byte(`"stré\n"`), []byte(`12345678901234567890`),
	[]byte(`1.25e3`), []byte(`{"a":{"b":{"c":[{},{"d":[]}]}}}`), []byte(`[`), []byte(`{"a":`), []byte(`{"a":1,`), []byte(`[1,2`), []byte(`"abc`),
	[]byte(`"ab\`), []byte(`"\u12`), []byte(`tru`), []byte(`nul`), []byte(`-`), []byte(`1.`), []byte(`1e`), []byte(`[1 2]`), []byte(`{"a" 1}`), []byte(`]`),
	[]byte(`{"k":"v"} [1] 2 "s"`), []byte(`1 2 3`), []byte(`{"x":1}{"y":2}`), []byte(``), []byte(`  `), []byte(`null`), []byte(`{"a":1}x`),
	[]byte(`[1,2] [3] x`), []byte(`[[1],[2]] {"a":[3,4]} ]`), []byte(`[1,2] {"a":[3]} [`), []byte(`["a","b"] ["c"] {"tags":["d","e"]} tru`), []byte(`[7,8,9]`), []byte(`{"l":[1,[2,[3]]]}`),
	[]byte("\xef\xbc\x91\xef\xbc\x92"), []byte("\xef\xbb[1,2]"), []byte("\xef\xbb\xbf[1,2]"),
	[]byte(`{"dup":1,"dup":2}`), []byte(`[0.1,0.123456789012345678,9223372036854775807,-9223372036854775808,1e400]`),
}

var senInputs = [][]byte{
	[]byte(`{a:1 b:[true null x] c:{d:1.5}}`), []byte(`[a b c]`), []byte(`'single "q"'`), []byte(`["a" + "b"]`), []byte(`["a" +`), []byte(`{a:"x" +`), []byte(`{a`), []byte(`{a:`),
	[]byte(`[1 2 // c
 3]`), []byte(`{a:1}{b:2}`), []byte(`abc`), []byte(`[x`), []byte(`{k:v,`), []byte(`[/* c */ 1]`), []byte(`[ISODate("2021-06-28T10:11:12Z")]`), []byte(`[fn(1 2`), []byte(`{a:1 "b":2}`),
	[]byte(`[1 2] [3] }`), []byte(`[a b] {c:[d e]} {`), []byte(`[[x] [y]] [z] ]`), []byte(`[7 8 9]`), []byte(`{l:[1 [2 [3]]]}`),
}

// longDoc is several read buffers long (the parsers read 4096 bytes at a time); its elements name their stream and
// their position, so data that ends up in another call's result can be told by looking at it.
func longDoc(t *rapid.T) []byte {
	pre := []string{"a", "b", "c"}[sim.Intn(t, 3, "stream")]
	size := 4096*(1+sim.Intn(t, 3, "bufs")) + sim.Intn(t, 64, "over") - 8
	var b bytes.Buffer
	b.WriteByte('[')
	for i := 0; b.Len() < size; i++ {
		if i > 0 {
			b.WriteByte(',')
		}
		fmt.Fprintf(&b, `"%s%04d"`, pre, i)
	}
	b.WriteByte(']')
	d := b.Bytes()
	switch sim.Intn(t, 3, "damage") {
	case 1:
		d[sim.Intn(t, len(d), "at")] = '}'
	case 2:
		d = d[:sim.Intn(t, len(d), "cut")]
	}
	return d
}

func drawParseInput(t *rapid.T, senFamily bool) []byte {
	switch sim.Weighted(t, "inkind", 8, 6, 4, 1) {
	case 3:
		return longDoc(t)
	case 0:
		if senFamily && sim.Bool(t, "sen") {
			return append([]byte(nil), senInputs[sim.Intn(t, len(senInputs), "senin")]...)
		}
		return append([]byte(nil), parseInputs[sim.Intn(t, len(parseInputs), "in")]...)
	case 1:
		return gens.Doc(t, 2)
	default:
		d := gens.Doc(t, 2)
		return gens.Mutate(t, d)
	}
}

func drawValue07(t *rapid.T) (any, string) {
	mk := func() zInner {
		return zInner{S: []string{"", "s", "x y"}[sim.Intn(t, 3, "zs")], N: sim.Intn(t, 3, "zn"), F: []float64{0, 1.5}[sim.Intn(t, 2, "zf")]}
	}
	dd := func(v any) string { return derefAll(reflect.ValueOf(v)) } // (no pointer values in descriptions: they go into the case key)
	mkItem := func() zItem {
		it := zItem{Stamp: zStamp{sim.Intn(t, 3, "sec")}, Txt: zText{[]string{"", "t"}[sim.Intn(t, 2, "txt")]}, Simp: zSimp{sim.Intn(t, 2, "simp")}, Val: zValM{sim.Intn(t, 2, "valm")}, N: sim.Intn(t, 2, "n")}
		if sim.Bool(t, "ps") {
			it.PS = &zStamp{7}
		}
		return it
	}
	switch sim.Weighted(t, "valkind", 5, 2, 2, 1, 1, 1, 1, 2, 2, 1, 1) {
	case 10: // times and byte slices (what the time and bytes options act on), bare, in containers, behind a pointer
		tm := time.Unix(int64(sim.Intn(t, 3, "sec")), int64(sim.Intn(t, 2, "nsec"))*500000000).UTC()
		switch sim.Intn(t, 4, "timeform") {
		case 0:
			return []any{tm, mk(), []byte("by")}, fmt.Sprintf("[time(%d), zInner, bytes]", tm.UnixNano())
		case 1:
			return map[string]any{"t": tm, "p": &tm}, fmt.Sprintf("{t:time(%d) p:&time}", tm.UnixNano())
		case 2:
			return []time.Time{tm, tm}, fmt.Sprintf("[]time.Time{%d x2}", tm.UnixNano())
		default:
			return tm, fmt.Sprintf("time(%d)", tm.UnixNano())
		}
	case 9: // a value that calls the pooled functions again while it is being written
		how := sim.Intn(t, 3, "nesthow")
		in := mk()
		v := []any{"head", zNest{Inner: []any{in, "x"}, How: how}, &zNest{Inner: in, How: how + 1}, "tail"}
		return v, fmt.Sprintf("[head, zNest(%d){[%+v x]}, &zNest(%d){%+v}, tail]", how, in, how+1, in)
	case 7: // a struct whose members encode themselves through pointer receivers, in every addressability
		it := mkItem()
		switch sim.Intn(t, 4, "itemform") {
		case 0:
			return &it, "&" + dd(it)
		case 1:
			return it, dd(it)
		case 2:
			v := []zItem{it, mkItem()}
			return v, dd(v)
		default:
			v := []*zItem{&it}
			return v, "[]*zItem{&" + dd(it) + "}"
		}
	case 8: // ... and held by value, by pointer and in containers by another struct
		switch sim.Intn(t, 10, "holder") {
		case 8, 9:
			rd := zReading{C: zCelsius([]float32{0, 1.5, -2.25}[sim.Intn(t, 3, "c")]), L: zLevel(sim.Intn(t, 3, "l")), N: zName([]string{"", "n"}[sim.Intn(t, 2, "nm")]), F: zFlag(sim.Bool(t, "f")), U: zCount(sim.Intn(t, 3, "u")), OC: zCelsius(sim.Intn(t, 2, "oc"))}
			switch sim.Intn(t, 6, "rform") {
			case 4:
				v := zEmbLevel{ZLevelX: ZLevelX(sim.Intn(t, 3, "lx")), ZTags: ZTags{"t"}[:sim.Intn(t, 2, "tags")], Name: "e"}
				return v, dd(v)
			case 5:
				v := &zEmbLevel{ZLevelX: ZLevelX(sim.Intn(t, 3, "lx")), Name: "p"}
				return v, "&" + dd(*v)
			case 0:
				return &rd, "&" + dd(rd)
			case 1:
				return rd, dd(rd)
			case 2:
				v := zReadingBox{R: rd, Rs: []zReading{rd}}
				return v, dd(v)
			default:
				v := &zReadingBox{R: rd}
				return v, "&" + dd(*v)
			}
		case 6, 7:
			it := zItemV{Val: zValM{sim.Intn(t, 2, "valm")}, At: time.Unix(int64(sim.Intn(t, 3, "at")), 0).UTC(), N: sim.Intn(t, 2, "n")}
			switch sim.Intn(t, 4, "vform") {
			case 0:
				return &it, "&" + dd(it)
			case 1:
				return it, dd(it)
			case 2:
				v := zBoxVV{Item: it, Items: []zItemV{it}}
				return v, dd(v)
			default:
				v := &zBoxVV{Item: it}
				return v, dd(v)
			}
		case 0:
			v := zBoxV{Item: mkItem(), Items: []zItem{mkItem()}}
			if sim.Bool(t, "boxaddr") {
				return &v, "&" + dd(v)
			}
			return v, dd(v)
		case 1:
			v := zBoxA{A: [2]zItem{mkItem(), mkItem()}}
			if sim.Bool(t, "boxaddr") {
				return &v, "&" + dd(v)
			}
			return v, dd(v)
		case 2:
			v := zBoxM{M: map[string]zItem{"k": mkItem()}}
			if sim.Bool(t, "boxaddr") {
				return &v, "&" + dd(v)
			}
			return v, dd(v)
		case 3:
			it := mkItem()
			v := zBoxP{P: &it}
			return v, "zBoxP{P:&" + dd(it) + "}"
		}
		b := zBox{Item: mkItem(), A: [2]zItem{mkItem(), mkItem()}}
		if sim.Bool(t, "boxitems") {
			b.Items = []zItem{mkItem()}
		}
		if sim.Bool(t, "boxmap") {
			b.M = map[string]zItem{"k": mkItem()}
		}
		if sim.Bool(t, "boxptr") {
			it := mkItem()
			b.P = &it
			b.PL = []*zItem{&it}
		}
		desc := "zBox" + dd(b)
		if sim.Bool(t, "boxaddr") {
			return &b, "&" + desc
		}
		return b, desc
	case 6: // larger than the default WriteLimit of the pooled writers
		v := []any{strings.Repeat("x", 1100+sim.Intn(t, 400, "biglen")), sim.Intn(t, 3, "n")}
		return v, fmt.Sprintf("[\"x\"*%d, %v]", len(v[0].(string)), v[1])
	case 0:
		v := gens.Tree(t, 3)
		return v, fmt.Sprintf("%#v", v)
	case 5: // nil slice / unencodable member: strict (Marshal) and non-strict writers differ on these
		v := []any{[]any(nil), sim.Intn(t, 3, "n")}
		return v, fmt.Sprintf("%#v", v)
	case 1:
		in := mk()
		return in, fmt.Sprintf("%#v", in)
	case 2:
		o := &zOuter{A: sim.Intn(t, 3, "za"), In: mk(), B: sim.Bool(t, "zb"), Tg: []string{"", "t"}[sim.Intn(t, 2, "ztg")]}
		if sim.Bool(t, "zptr") {
			p := mk()
			o.Ptr = &p
		}
		n := sim.Intn(t, 3, "zl")
		for i := 0; i < n; i++ {
			o.L = append(o.L, mk())
		}
		switch sim.Intn(t, 3, "zany") {
		case 1:
			o.Any = gens.Scalar(t)
		case 2:
			o.Any = mk()
		}
		return o, fmt.Sprintf("&zOuter{A:%d In:%+v Ptr:%+v L:%+v Any:%#v Tg:%q B:%v}", o.A, o.In, o.Ptr, o.L, o.Any, o.Tg, o.B)
	case 3:
		w := zWrap{Name: "w", Inner: mk()}
		if sim.Bool(t, "zouter") {
			w.Outer = &zOuter{In: mk()}
		}
		return w, fmt.Sprintf("zWrap{Outer:%+v Inner:%+v}", w.Outer, w.Inner)
	default:
		v := []any{mk(), map[string]any{"k": mk()}, gens.Scalar(t)}
		return v, fmt.Sprintf("%#v", v)
	}
}

func drawOptions07(t *rapid.T) ojg.Options {
	o := ojg.Options{Sort: true}
	switch sim.Intn(t, 3, "indent") {
	case 1:
		o.Indent = 2
	case 2:
		o.Tab = true
	}
	o.OmitNil = sim.Intn(t, 3, "omitnil") == 2
	o.OmitEmpty = sim.Intn(t, 3, "omitempty") == 2
	o.UseTags = sim.Intn(t, 3, "usetags") == 2
	o.KeyExact = sim.Intn(t, 3, "keyexact") == 2
	o.NestEmbed = sim.Intn(t, 4, "nestembed") == 3
	if sim.Intn(t, 5, "rareopts") == 4 {
		// options that are rarely set, alone and together
		o.TimeMap = sim.Bool(t, "timemap")
		o.CreateKey = []string{"", "type", "^"}[sim.Intn(t, 3, "createkey")]
		o.FullTypePath = sim.Bool(t, "fulltypepath")
		o.TimeWrap = []string{"", "@"}[sim.Intn(t, 2, "timewrap")]
		o.TimeFormat = []string{"", "nano", "second", time.RFC3339Nano}[sim.Intn(t, 4, "timeformat")]
		o.BytesAs = sim.Intn(t, 3, "bytesas")
		o.HTMLUnsafe = sim.Bool(t, "htmlunsafe")
	}
	if sim.Intn(t, 8, "color") == 7 {
		d := ojg.DefaultOptions
		o.Color = true
		o.SyntaxColor, o.KeyColor, o.NullColor, o.BoolColor, o.NumberColor, o.StringColor, o.TimeColor, o.NoColor = d.SyntaxColor, d.KeyColor, d.NullColor, d.BoolColor, d.NumberColor, d.StringColor, d.TimeColor, d.NoColor
	}
	return o
}

var parseSubjects = []string{"oj.Parser", "oj.Validator", "oj.Tokenizer", "gen.Parser", "sen.Parser", "sen.Tokenizer", "pkg.oj", "pkg.sen", "pkg.oj", "pkg.sen"}
var writeSubjects = []string{"oj.Writer", "sen.Writer", "pkg.oj", "pkg.sen", "pkg.oj", "pkg.sen", "pretty.Writer", "pkg.pretty"}

// theme07 is the swarm configuration of one history: the few subjects its operations concentrate on (a defect that
// needs three particular calls in a row on one subject is out of reach when every call picks among ten).
type theme07 struct {
	parse, write []string
	kind         int  // 0 mixed, 1 parse only, 2 write only
	long         bool // "long streams": half of the parse inputs are several read buffers long, half of the readers fill every buffer
}

func drawTheme07(t *rapid.T) *theme07 {
	th := &theme07{parse: parseSubjects, write: writeSubjects}
	if sim.Intn(t, 4, "uniform") == 3 {
		return th
	}
	th.parse, th.write = nil, nil
	for i, n := 0, 1+sim.Intn(t, 2, "nparse"); i < n; i++ {
		th.parse = append(th.parse, parseSubjects[sim.Intn(t, len(parseSubjects), "themeparse")])
	}
	for i, n := 0, 1+sim.Intn(t, 2, "nwrite"); i < n; i++ {
		th.write = append(th.write, writeSubjects[sim.Intn(t, len(writeSubjects), "themewrite")])
	}
	th.kind = sim.Intn(t, 3, "themekind")
	// what needs two long streams on one subject (a buffer kept across calls, a read-ahead left behind by an abandoned
	// call) almost never happens when one input in nineteen is long and one schedule in nine fills the buffers
	th.long = th.kind != 2 && sim.Intn(t, 10, "longstreams") == 0
	return th
}

func drawOp07(t *rapid.T, faults bool, th *theme07) *op07 {
	o := &op07{Conv: -1, PanicAt: -1, FailCall: -1, ChanCap: -1}
	write := sim.Intn(t, 5, "write?") >= 3
	switch th.kind {
	case 1:
		write = false
	case 2:
		write = true
	}
	if write {
		o.Subj = th.write[sim.Intn(t, len(th.write), "wsubj")]
		o.Value, o.ValDesc = drawValue07(t)
		o.Opt = drawOptions07(t)
		o.Limit = []int{1, 4, 16, 64, 1024}[sim.Intn(t, 5, "limit")]
		switch o.Subj {
		case "oj.Writer":
			o.Fn = []string{"JSON", "Write", "Marshal(v,wr)", "MustJSON"}[sim.Intn(t, 4, "fn")]
		case "sen.Writer":
			o.Fn = []string{"SEN", "Write"}[sim.Intn(t, 2, "fn")]
		case "pkg.oj":
			o.Fn = []string{"JSON", "JSON(opts)", "Marshal", "Marshal(opts)", "Write", "Write(opts)", "JSON(int)", "Marshal(int)", "Write(int)"}[sim.Intn(t, 9, "fn")]
		case "pretty.Writer":
			o.Fn = []string{"Encode", "Marshal", "Write"}[sim.Intn(t, 3, "fn")]
			o.Mode = sim.Intn(t, 64, "prettycfg")
			if sim.Bool(t, "prettydeep") {
				o.Value = gens.Deep(t, 3+sim.Intn(t, 40, "depth"))
				o.ValDesc = fmt.Sprintf("%#v", o.Value)
			}
		case "pkg.pretty":
			o.Fn = []string{"JSON", "SEN", "WriteJSON", "WriteSEN"}[sim.Intn(t, 4, "fn")]
			o.Mode = sim.Intn(t, 64, "prettycfg")
			if sim.Bool(t, "prettydeep") {
				o.Value = gens.Deep(t, 3+sim.Intn(t, 40, "depth"))
				o.ValDesc = fmt.Sprintf("%#v", o.Value)
			}
		default:
			o.Fn = []string{"String", "String(opts)", "Write", "Write(opts)", "String(int)", "Write(int)", "Bytes"}[sim.Intn(t, 7, "fn")]
		}
		if (o.Subj == "oj.Writer" || o.Subj == "sen.Writer" || o.Subj == "pretty.Writer") && sim.Intn(t, 3, "keepopts") == 2 {
			o.Keep = true // resolved in propC07 (the first call on a subject cannot keep anything)
		}
		if faults && sim.Intn(t, 3, "wfault") == 2 {
			o.Faulty = true
			if strings.HasPrefix(o.Fn, "Write") && sim.Bool(t, "iofault") {
				o.FailCall = sim.Intn(t, 4, "failcall")
				if sim.Intn(t, 3, "doublefault") == 2 {
					// ... and user code panics later in the same call (a large value first, so that a flush happens before)
					o.Value = []any{strings.Repeat("x", 1200), o.Value, &boom{Armed: true, V: 1}, 2}
					o.ValDesc = "[x*1200, " + o.ValDesc + ", <panicking Simplifier>, 2]"
					o.HasBoom = true
				}
			} else {
				o.Value = []any{o.Value, &boom{Armed: true, V: 1}, 2}
				o.ValDesc = "[" + o.ValDesc + ", <panicking Simplifier>, 2]"
				o.HasBoom = true
			}
		}
		return o
	}
	o.Subj = th.parse[sim.Intn(t, len(th.parse), "psubj")]
	o.IsParse = true
	senFam := strings.Contains(o.Subj, "sen")
	if th.long && sim.Bool(t, "longin") {
		o.Input = longDoc(t)
	} else {
		o.Input = drawParseInput(t, senFam)
	}
	if o.Input == nil {
		o.Input = []byte{}
	}
	reader := sim.Bool(t, "reader")
	switch o.Subj {
	case "oj.Validator":
		o.Fn = "Validate"
		o.OnlyOne = sim.Bool(t, "onlyone")
	case "oj.Tokenizer", "sen.Tokenizer":
		o.Fn = "Parse"
		o.OnlyOne = sim.Bool(t, "onlyone")
	case "pkg.oj":
		o.Fn = []string{"Parse", "ParseString", "Load", "Unmarshal", "MustParse"}[sim.Intn(t, 5, "fn")]
		reader = o.Fn == "Load"
	case "pkg.sen":
		o.Fn = []string{"Parse", "ParseReader", "Unmarshal", "MustParse"}[sim.Intn(t, 4, "fn")]
		reader = o.Fn == "ParseReader"
	default:
		o.Fn = "Parse"
		o.Reuse = sim.Intn(t, 4, "reuse") == 3
		if (o.Subj == "oj.Parser" || o.Subj == "sen.Parser") && sim.Intn(t, 6, "unmarshal") == 5 {
			o.Fn = "Unmarshal"
			o.Reuse = false
			reader = false
		}
	}
	if faults && sim.Intn(t, 12, "badopt") == 11 {
		o.BadOpt = true
		o.Faulty = true
	}
	if reader && !strings.HasPrefix(o.Subj, "pkg.") {
		switch o.Fn {
		case "Validate":
			o.Fn = "ValidateReader"
		case "Parse":
			if strings.Contains(o.Subj, "Tokenizer") {
				o.Fn = "Load"
			} else {
				o.Fn = "ParseReader"
			}
		}
	}
	if reader {
		o.Sched = sim.DrawSchedule(t, len(o.Input), nil)
		if th.long && sim.Bool(t, "fullreads") {
			o.Sched = &sim.Schedule{Style: "full", FailAt: -1, EOFWithData: sim.Bool(t, "eofWithData")}
		}
	}
	if o.Fn == "Unmarshal" && o.Subj == "oj.Parser" {
		o.Mode = sim.Intn(t, 2, "recomposerarg") // 1: with the recomposer argument
	}
	if !strings.Contains(o.Subj, "Validator") && !strings.Contains(o.Subj, "Tokenizer") && o.Fn != "Unmarshal" && o.Fn != "MustParse" {
		o.Mode = sim.Weighted(t, "mode", 4, 2, 1)
		if o.Mode == modeChan && sim.Intn(t, 3, "boundedchan?") == 0 {
			o.ChanCap = sim.Intn(t, 3, "chancap")
		}
		if o.Subj != "gen.Parser" && sim.Intn(t, 4, "conv?") == 3 {
			o.Conv = sim.Intn(t, 3, "conv")
		}
	}
	if faults && sim.Intn(t, 3, "pfault") == 2 {
		o.Faulty = true
		switch {
		case reader && sim.Bool(t, "readfault"):
			o.Sched.FailAt = sim.Intn(t, len(o.Input)+1, "failat")
		case o.Mode == modeCB || strings.Contains(o.Subj, "Tokenizer"):
			o.PanicAt = sim.Intn(t, 4, "panicat")
		case reader:
			o.Sched.FailAt = sim.Intn(t, len(o.Input)+1, "failat")
		default:
			o.Faulty = false
		}
	}
	return o
}

var convMethods = []ojg.NumConvMethod{ojg.NumConvNone, ojg.NumConvFloat64, ojg.NumConvString}

type callerPanic struct{}

// parseArgs builds the variadic args of a parse call and the collector of what was delivered.
func (o *op07) parseArgs(isGen bool, r *res07, bounded bool) (args []any, collect func() []any) {
	n := 0
	switch o.Mode {
	case modeCB:
		var docs []any
		if isGen {
			args = append(args, func(v gen.Node) bool {
				if o.PanicAt >= 0 && n == o.PanicAt {
					r.Aborted = true
					panic(callerPanic{})
				}
				n++
				docs = append(docs, nodeAny(v))
				return false
			})
		} else {
			args = append(args, func(v any) bool {
				if o.PanicAt >= 0 && n == o.PanicAt {
					r.Aborted = true
					panic(callerPanic{})
				}
				n++
				docs = append(docs, v)
				return false
			})
		}
		collect = func() []any { return docs }
	case modeChan:
		if isGen {
			if bounded {
				ch := make(chan gen.Node, o.ChanCap)
				args = append(args, ch)
				collect = boundedChan(ch, r, nodeAny)
				break
			}
			ch := make(chan gen.Node, len(o.Input)+2)
			args = append(args, ch)
			collect = func() []any {
				var docs []any
				for {
					select {
					case v := <-ch:
						docs = append(docs, nodeAny(v))
					default:
						return docs
					}
				}
			}
		} else {
			if bounded {
				ch := make(chan any, o.ChanCap)
				args = append(args, ch)
				collect = boundedChan(ch, r, func(v any) any { return v })
				break
			}
			ch := make(chan any, len(o.Input)+2)
			args = append(args, ch)
			collect = func() []any {
				var docs []any
				for {
					select {
					case v := <-ch:
						docs = append(docs, v)
					default:
						return docs
					}
				}
			}
		}
	}
	if o.Conv >= 0 && !isGen {
		args = append(args, convMethods[o.Conv])
	}
	if o.BadOpt {
		args = append(args, struct{ notAnOption int }{5})
	}
	return
}

// boundedChan: the result channel is served by the simulator's consumer (sim.Consumer): documents are taken from it only
// when the call is stalled in a send, and what has not arrived by the time the call returns was not delivered by it.
func boundedChan[T any](ch chan T, r *res07, conv func(T) any) (collect func() []any) {
	c := sim.StartConsumer(ch)
	var docs []any
	finished := false
	collect = func() []any {
		if finished {
			return docs
		}
		finished = true
		got, stalls := c.Finish()
		for _, v := range got {
			docs = append(docs, conv(v))
		}
		if stalls > 0 {
			sim.ProbeN("producer_stalled_on_full_channel", stalls)
		}
		r.Late = sim.DrainStray(ch)
		return docs
	}
	r.cleanup = func() { collect() }
	return
}

// panickyHandler wraps the Builder adapter and panics at event PanicAt.
type panickyHandler struct {
	*builderHandler
	n, at int
	r     *res07
}

func (h *panickyHandler) tick() {
	if h.at >= 0 && h.n == h.at {
		h.r.Aborted = true
		panic(callerPanic{})
	}
	h.n++
}
func (h *panickyHandler) Null()           { h.tick(); h.builderHandler.Null() }
func (h *panickyHandler) Bool(v bool)     { h.tick(); h.builderHandler.Bool(v) }
func (h *panickyHandler) Int(v int64)     { h.tick(); h.builderHandler.Int(v) }
func (h *panickyHandler) Float(v float64) { h.tick(); h.builderHandler.Float(v) }
func (h *panickyHandler) Number(v string) { h.tick(); h.builderHandler.Number(v) }
func (h *panickyHandler) String(v string) { h.tick(); h.builderHandler.String(v) }
func (h *panickyHandler) ObjectStart()    { h.tick(); h.builderHandler.ObjectStart() }
func (h *panickyHandler) ObjectEnd()      { h.tick(); h.builderHandler.ObjectEnd() }
func (h *panickyHandler) Key(v string)    { h.tick(); h.builderHandler.Key(v) }
func (h *panickyHandler) ArrayStart()     { h.tick(); h.builderHandler.ArrayStart() }
func (h *panickyHandler) ArrayEnd()       { h.tick(); h.builderHandler.ArrayEnd() }

func canonDocs(errored bool, docs []any) string {
	var b strings.Builder
	if errored {
		b.WriteString("error;")
	} else {
		b.WriteString("ok;")
	}
	for i, d := range docs {
		if i > 0 {
			b.WriteString(" | ")
		}
		b.WriteString(ref.Exact(d))
	}
	return b.String()
}

// canonErr is canonDocs with the error's text: what an error says (message, line and column) is part of the
// result of the call and must not depend on the instance's past either.
func canonErr(err error, docs []any) string {
	c := canonDocs(err != nil, docs)
	if err != nil {
		c = "error(" + err.Error() + ")" + c[len("error"):]
	}
	return c
}

// exec runs one operation in world w. The caller's input buffer is overwritten afterwards.
func (o *op07) exec(w *world07) (r *res07) {
	r = &res07{}
	// a bounded result channel with the simulator as its consumer - in the history pass only: the fresh instance delivers into a
	// channel with room for everything, so that the capacity of the caller's channel is part of what must not matter
	bounded := o.ChanCap >= 0 && !w.fresh
	// the simulated streams know the goroutine of the call they are handed to and are told when it has returned (sim/foreign.go)
	var owned []*sim.SimWriter
	defer func() {
		for _, sw := range owned {
			sw.Done()
		}
	}()
	newSW := func() *sim.SimWriter {
		sw := sim.NewSimWriter(o.FailCall)
		sw.Own()
		owned = append(owned, sw)
		return sw
	}
	var rd *sim.SimReader
	if o.Sched != nil {
		rd = sim.NewSimReader(o.Input, o.Sched)
		rd.Own()
		defer rd.Done()
	}
	buf := append([]byte(nil), o.Input...)
	defer func() {
		if r.cleanup != nil {
			defer r.cleanup()
		}
		if p := recover(); p != nil {
			switch p.(type) {
			case callerPanic:
				r.Aborted = true
				r.Canon = "caller-panic"
			default:
				if rd != nil && rd.Hung {
					r.Canon = "HANG"
				} else {
					r.Canon = fmt.Sprintf("PANIC(%v)", p)
				}
			}
		}
		if rd != nil && rd.FaultHit {
			r.Aborted = true
		}
		if o.HasBoom {
			r.Aborted = true // the injected Simplifier panic aborted the write, however the API surfaced it
		}
		// the caller reuses its buffer: what the call returned must not alias it
		// (judged in the history pass, where the snapshot is needed anyway)
		var before string
		judged := len(r.Retained) > 0 && !w.fresh
		if judged {
			before = snapshot(r.Retained)
		}
		for i := range buf {
			buf[i] = 0xAA
		}
		if judged {
			r.Snap = snapshot(r.Retained)
			if r.Snap != before {
				r.Aliased = clip(before) + " -> " + clip(r.Snap)
			}
		}
	}()
	finishParse := func(v any, err error, collect func() []any) {
		var docs []any
		if collect != nil {
			docs = collect()
		} else if err == nil {
			docs = []any{v}
		}
		r.Canon, r.Err = canonErr(err, docs), err
		r.Retained = docs
		r.Volatile = o.Reuse
	}
	switch o.Subj {
	case "oj.Parser", "pkg.oj":
		if o.IsParse {
			args, collect := o.parseArgs(false, r, bounded)
			var v any
			var err error
			switch {
			case o.Fn == "Unmarshal" && o.Subj == "pkg.oj":
				var out any
				err = oj.Unmarshal(buf, &out)
				v = out
			case o.Fn == "MustParse":
				func() {
					defer func() {
						if p := recover(); p != nil {
							err = fmt.Errorf("%v", p)
						}
					}()
					v = oj.MustParse(buf)
				}()
			case o.Fn == "Unmarshal":
				var out any
				if o.Mode%2 == 1 { // (with the recomposer argument)
					err = w.ojP.Unmarshal(buf, &out, *alt.MustNewRecomposer("", nil))
				} else {
					err = w.ojP.Unmarshal(buf, &out)
				}
				v = out
			case o.Subj == "oj.Parser" && o.Fn == "Parse":
				w.ojP.Reuse = o.Reuse
				v, err = w.ojP.Parse(buf, args...)
			case o.Subj == "oj.Parser":
				w.ojP.Reuse = o.Reuse
				v, err = w.ojP.ParseReader(rd, args...)
			case o.Fn == "Parse":
				v, err = oj.Parse(buf, args...)
			case o.Fn == "ParseString":
				v, err = oj.ParseString(string(buf), args...)
			default:
				v, err = oj.Load(rd, args...)
			}
			finishParse(v, err, collect)
			return
		}
	case "gen.Parser":
		args, collect := o.parseArgs(true, r, bounded)
		w.genP.Reuse = o.Reuse
		var v gen.Node
		var err error
		if o.Fn == "Parse" {
			v, err = w.genP.Parse(buf, args...)
		} else {
			v, err = w.genP.ParseReader(rd, args...)
		}
		finishParse(nodeAny(v), err, collect)
		return
	case "sen.Parser", "pkg.sen":
		if o.IsParse {
			args, collect := o.parseArgs(false, r, bounded)
			var v any
			var err error
			switch {
			case o.Fn == "Unmarshal" && o.Subj == "pkg.sen":
				var out any
				err = sen.Unmarshal(buf, &out)
				v = out
			case o.Fn == "MustParse":
				func() {
					defer func() {
						if p := recover(); p != nil {
							err = fmt.Errorf("%v", p)
						}
					}()
					v = sen.MustParse(buf)
				}()
			case o.Fn == "Unmarshal":
				var out any
				err = w.senP.Unmarshal(buf, &out)
				v = out
			case o.Subj == "sen.Parser" && o.Fn == "Parse":
				w.senP.Reuse = o.Reuse
				v, err = w.senP.Parse(buf, args...)
			case o.Subj == "sen.Parser":
				w.senP.Reuse = o.Reuse
				v, err = w.senP.ParseReader(rd, args...)
			case o.Fn == "Parse":
				v, err = sen.Parse(buf, args...)
			default:
				v, err = sen.ParseReader(rd, args...)
			}
			finishParse(v, err, collect)
			return
		}
	case "oj.Validator":
		w.ojV.OnlyOne = o.OnlyOne
		var err error
		if o.Fn == "Validate" {
			err = w.ojV.Validate(buf)
		} else {
			err = w.ojV.ValidateReader(rd)
		}
		r.Canon, r.Err = canonErr(err, nil), err
		return
	case "oj.Tokenizer", "sen.Tokenizer":
		h := &panickyHandler{builderHandler: newBuilderHandler(), at: o.PanicAt, r: r}
		var err error
		switch {
		case o.Subj == "oj.Tokenizer" && o.Fn == "Parse":
			w.ojT.OnlyOne = o.OnlyOne
			err = w.ojT.Parse(buf, h)
		case o.Subj == "oj.Tokenizer":
			w.ojT.OnlyOne = o.OnlyOne
			err = w.ojT.Load(rd, h)
		case o.Fn == "Parse":
			w.senT.OnlyOne = o.OnlyOne
			err = w.senT.Parse(buf, h)
		default:
			w.senT.OnlyOne = o.OnlyOne
			err = w.senT.Load(rd, h)
		}
		if err == nil && h.berr != nil {
			err = h.berr
		}
		r.Canon, r.Err = canonErr(err, h.docs), err
		r.Retained = h.docs
		return
	}
	// ---- writers
	finishText := func(text []byte, err error, sw *sim.SimWriter) {
		if sw != nil {
			if sw.FaultHit {
				r.Aborted = true
			}
			text = sw.Buf
			r.Writer = sw
		}
		r.Canon, r.Err = canonErr(err, []any{string(text)}), err
		if sw == nil {
			r.Retained = []any{string(text)}
		}
	}
	opt := o.Opt
	// the effective options of a Writer call: the drawn ones, with the write limit for the streaming functions. A
	// "keep" call on a used Writer sets nothing - it runs on what the previous call left in the Writer -, on the
	// fresh instance it sets what the user had set last.
	eff := opt
	if !o.Keep && o.Fn == "Write" {
		eff.WriteLimit = o.Limit
	}
	set := !o.Keep || w.fresh
	switch o.Subj {
	case "oj.Writer":
		if set {
			w.ojW.Options = eff
		}
		switch o.Fn {
		case "JSON":
			finishText([]byte(w.ojW.JSON(o.Value)), nil, nil)
		case "MustJSON":
			out := w.ojW.MustJSON(o.Value)
			finishText(append([]byte(nil), out...), nil, nil) // documented as the writer's buffer: snapshot by copy
			r.Buffer = out
		case "Marshal(v,wr)":
			out, err := oj.Marshal(o.Value, w.ojW)
			finishText(out, err, nil)
			if len(out) > 0 { // (also when it comes with an error: it is the caller's now)
				r.Retained = []any{out}
			}
		default:
			sw := newSW()
			err := w.ojW.Write(sw, o.Value)
			finishText(nil, err, sw)
		}
	case "sen.Writer":
		if set {
			w.senW.Options = eff
		}
		if o.Fn == "SEN" {
			finishText([]byte(w.senW.SEN(o.Value)), nil, nil)
		} else {
			sw := newSW()
			err := w.senW.Write(sw, o.Value)
			finishText(nil, err, sw)
		}
	case "pretty.Writer":
		// (Mode carries the pretty configuration: width, max depth, align, SEN)
		if set {
			w.prW.Options = eff
			w.prW.Width = []int{80, 40, 20, 10}[o.Mode%4]
			w.prW.MaxDepth = 1 + o.Mode/4%4
			w.prW.Align = o.Mode/16%2 == 1
			w.prW.SEN = o.Mode/32%2 == 1
		}
		switch o.Fn {
		case "Encode":
			out := w.prW.Encode(o.Value)
			finishText(append([]byte(nil), out...), nil, nil) // documented as the writer's buffer: snapshot by copy
			r.Buffer = out
		case "Marshal":
			out, err := w.prW.Marshal(o.Value)
			finishText(append([]byte(nil), out...), err, nil)
		default:
			sw := newSW()
			err := w.prW.Write(sw, o.Value)
			finishText(nil, err, sw)
		}
	case "pkg.pretty":
		parg := float64([]int{80, 40, 20, 10}[o.Mode%4]) + float64(1+o.Mode/4%4)/10
		align := o.Mode/16%2 == 1
		opt.WriteLimit = o.Limit
		switch o.Fn {
		case "JSON":
			finishText([]byte(pretty.JSON(o.Value, parg, align, &opt)), nil, nil)
		case "SEN":
			finishText([]byte(pretty.SEN(o.Value, parg, align, &opt)), nil, nil)
		case "WriteJSON":
			sw := newSW()
			err := pretty.WriteJSON(sw, o.Value, parg, align, &opt)
			finishText(nil, err, sw)
		default:
			sw := newSW()
			err := pretty.WriteSEN(sw, o.Value, parg, align, &opt)
			finishText(nil, err, sw)
		}
	case "pkg.oj":
		switch o.Fn {
		case "JSON":
			finishText([]byte(oj.JSON(o.Value)), nil, nil)
		case "JSON(opts)":
			finishText([]byte(oj.JSON(o.Value, &opt)), nil, nil)
		case "Marshal":
			out, err := oj.Marshal(o.Value)
			finishText(out, err, nil)
			if len(out) > 0 { // (also when it comes with an error: it is the caller's now)
				r.Retained = []any{out}
			}
		case "Marshal(opts)":
			out, err := oj.Marshal(o.Value, &opt)
			finishText(out, err, nil)
			if len(out) > 0 { // (also when it comes with an error: it is the caller's now)
				r.Retained = []any{out}
			}
		case "Write":
			sw := newSW()
			err := oj.Write(sw, o.Value)
			finishText(nil, err, sw)
		case "JSON(int)":
			finishText([]byte(oj.JSON(o.Value, o.Limit%5)), nil, nil)
		case "Marshal(int)":
			out, err := oj.Marshal(o.Value, o.Limit%5)
			finishText(out, err, nil)
			if len(out) > 0 { // (also when it comes with an error: it is the caller's now)
				r.Retained = []any{out}
			}
		case "Write(int)":
			sw := newSW()
			err := oj.Write(sw, o.Value, o.Limit%5)
			finishText(nil, err, sw)
		default:
			opt.WriteLimit = o.Limit
			sw := newSW()
			err := oj.Write(sw, o.Value, &opt)
			finishText(nil, err, sw)
		}
	case "pkg.sen":
		switch o.Fn {
		case "String":
			finishText([]byte(sen.String(o.Value)), nil, nil)
		case "String(opts)":
			finishText([]byte(sen.String(o.Value, &opt)), nil, nil)
		case "String(int)":
			finishText([]byte(sen.String(o.Value, o.Limit%5)), nil, nil)
		case "Bytes":
			b := sen.Bytes(o.Value)
			finishText(append([]byte(nil), b...), nil, nil)
			r.Retained = []any{b}
		case "Write(int)":
			sw := newSW()
			err := sen.Write(sw, o.Value, o.Limit%5)
			finishText(nil, err, sw)
		case "Write":
			sw := newSW()
			err := sen.Write(sw, o.Value)
			finishText(nil, err, sw)
		default:
			opt.WriteLimit = o.Limit
			sw := newSW()
			err := sen.Write(sw, o.Value, &opt)
			finishText(nil, err, sw)
		}
	}
	return
}

// deterministicText: package-level writes without options use the unsorted default options, so
// only values whose objects have at most one member give a text that does not depend on Go's
// map iteration order.
func (o *op07) orderIndependent() bool {
	if o.IsParse {
		return true
	}
	if strings.HasSuffix(o.Fn, "(opts)") || o.Subj == "oj.Writer" || o.Subj == "sen.Writer" || o.Subj == "pretty.Writer" || o.Subj == "pkg.pretty" {
		return true // Sort is set in every drawn option set
	}
	// (calls with an int indent or without arguments use unsorted default options)
	return maxMembersAny(o.Value) <= 1
}

func maxMembersAny(v any) int {
	switch tv := v.(type) {
	case []any:
		m := 0
		for _, e := range tv {
			if x := maxMembersAny(e); x > m {
				m = x
			}
		}
		return m
	case map[string]any:
		m := len(tv)
		for _, e := range tv {
			if x := maxMembersAny(e); x > m {
				m = x
			}
		}
		return m
	case *boom:
		return maxMembersAny(tv.V)
	}
	return 0
}

type case07 struct {
	Ops       []*op07
	RestartAt int // history pass: process restart before this op index (-1: none)
	Faults    bool
}

func (c *case07) render() any {
	var ops []string
	for i, o := range c.Ops {
		ops = append(ops, fmt.Sprintf("%d: %s", i, o))
	}
	return map[string]any{"ops": ops, "restart_before_op": c.RestartAt, "fault_configuration": c.Faults}
}

func snapshot(vals []any) string {
	var b strings.Builder
	for _, v := range vals {
		switch tv := v.(type) {
		case []byte:
			b.WriteString(string(tv))
		case *sim.SimWriter:
			// what the caller's io.Writer holds (read the way the caller would: without asking anybody)
			fmt.Fprintf(&b, "%d calls:", len(tv.Calls))
			b.Write(tv.Buf)
		case exprText:
			b.WriteString(tv.String())
		case keptErr:
			b.WriteString(errText(tv.err))
		default:
			b.WriteString(ref.Exact(v))
		}
		b.WriteByte(0)
	}
	return b.String()
}

func propC07(cx *sim.Ctx) {
	sim.Declare([]string{"pool_get_reused_most_recent", "pool_get_reused_other", "pool_get_new", "pool_put_dropped", "fault_fired_only_in_reference", "io_on_a_goroutine_of_the_library", "producer_stalled_on_full_channel"}, []string{"reader_error", "writer_error", "caller_callback_panic", "simplifier_panic", "process_restart", "late_delivery_after_abandoned_call"})
	t := cx.T
	c := &case07{RestartAt: -1}
	c.Faults = sim.Intn(t, 3, "faultconfig") > 0
	// how many later stream calls go by before a slow source delivers what an abandoned call left outstanding (only
	// matters when the code under test does I/O on a goroutine of its own; see sim/foreign.go)
	sim.LateK = sim.Intn(t, 3, "latek")
	defer sim.ReleaseLate()
	th := drawTheme07(t)
	ops := rapid.SliceOfN(rapid.Custom(func(t *rapid.T) *op07 { return drawOp07(t, c.Faults, th) }), 2, 10).Draw(t, "ops")
	// resolve the "keep" calls: they run on the options the user set last on that subject
	{
		type lastSet struct {
			opt  ojg.Options
			mode int
		}
		last := map[string]*lastSet{}
		for _, o := range ops {
			if o.IsParse || (o.Subj != "oj.Writer" && o.Subj != "sen.Writer" && o.Subj != "pretty.Writer") {
				continue
			}
			streaming := o.Fn == "Write"
			if o.Keep && last[o.Subj] != nil {
				o.Opt, o.Mode = last[o.Subj].opt, last[o.Subj].mode
				continue
			}
			o.Keep = false
			e := o.Opt
			if streaming {
				e.WriteLimit = o.Limit
			}
			last[o.Subj] = &lastSet{opt: e, mode: o.Mode}
		}
	}
	// drop order-dependent writes (result depends on Go's map order, which the simulator does not own)
	for _, o := range ops {
		if o.orderIndependent() {
			c.Ops = append(c.Ops, o)
		}
	}
	if len(c.Ops) < 2 {
		return
	}
	if c.Faults && sim.Intn(t, 4, "restart") == 3 {
		c.RestartAt = sim.Intn(t, len(c.Ops), "restartat")
	}
	cx.Render(c.render)
	for _, o := range c.Ops {
		cx.Key(o.String())
	}
	cx.Key(c.RestartAt)

	// reference pass: a restarted world and fresh subjects for every operation
	vsync.SetSeqDecider(nil)
	refRes := make([]*res07, len(c.Ops))
	for i, o := range c.Ops {
		vsync.Restart()
		fw := newWorld07()
		fw.fresh = true
		refRes[i] = o.exec(fw)
		sim.ReleaseLate() // (what a fresh instance left outstanding is delivered at once: nobody uses that instance again)
		cx.Exec()
	}
	cx.BaselineDone()

	// history pass: one world, simulated pool decisions
	vsync.Restart()
	vsync.SetSeqDecider(func(pool, kind, n int32) int32 {
		if kind == vsync.KGet {
			if n == 0 {
				return -1
			}
			// bias towards the most recently released instance, every alternative possible
			k := cx.Lazy(0, func() int { return sim.Weighted(t, "pool.get", 6, 2, 1) })
			switch k {
			case 0:
				sim.Probe("pool_get_reused_most_recent")
				return n - 1
			case 1:
				sim.Probe("pool_get_new")
				return -1
			default:
				sim.Probe("pool_get_reused_other")
				return int32(cx.Lazy(0, func() int { return sim.Intn(t, int(n), "pool.idx") }))
			}
		}
		if cx.Lazy(0, func() int { return sim.Intn(t, 6, "pool.put") }) == 5 {
			sim.Probe("pool_put_dropped")
			return 0
		}
		return 1
	})
	defer vsync.SetSeqDecider(nil)
	w := newWorld07()
	type kept struct {
		op    int
		vals  []any
		snap  string
		until string // subject whose next call ends the validity of vals ("" = for ever)
	}
	var retained []kept
	type keptWriter struct {
		op    int
		w     *sim.SimWriter
		calls int
	}
	var writers []keptWriter
	prevAbortOrDiff := map[string]bool{}
	lastSubjCfg := map[string]string{}
	nontrivial := false
	for i, o := range c.Ops {
		if i == c.RestartAt {
			vsync.Restart()
			sim.Fault("process_restart")
		}
		r := o.exec(w)
		cx.Exec()
		cx.Steps(1)
		cfg := fmt.Sprint(o.Fn, o.Mode, o.Conv, o.Reuse, o.OnlyOne, o.Opt.Indent, o.Opt.Tab, o.Opt.OmitNil, o.Opt.OmitEmpty, o.Opt.UseTags, o.Opt.KeyExact)
		if prevAbortOrDiff[o.Subj] || (lastSubjCfg[o.Subj] != "" && lastSubjCfg[o.Subj] != cfg) {
			nontrivial = true
		}
		lastSubjCfg[o.Subj] = cfg
		attrs := map[string]any{"subject": o.Subj, "fn": o.Fn, "faults": c.Faults}
		switch {
		case r.Aborted:
			if o.Sched != nil && o.Sched.FailAt >= 0 {
				sim.Fault("reader_error")
			} else if o.FailCall >= 0 {
				sim.Fault("writer_error")
			} else if o.PanicAt >= 0 {
				sim.Fault("caller_callback_panic")
			} else {
				sim.Fault("simplifier_panic")
			}
			prevAbortOrDiff[o.Subj] = true
			if r.Canon == "HANG" {
				cx.Fail(fmt.Sprintf("C07/hang/%s.%s", o.Subj, o.Fn), "aborted call does not return", attrs)
			}
		case refRes[i].Aborted:
			// aborted on the fresh instance but not here: the injected fault did not fire the same way; not judged
			sim.Probe("fault_fired_only_in_reference")
		case strings.HasPrefix(r.Canon, "PANIC") && !strings.HasPrefix(refRes[i].Canon, "PANIC"):
			cx.Fail(fmt.Sprintf("C07/freshness/%s.%s/panic", o.Subj, o.Fn), fmt.Sprintf("op %d on the reused instance: %s ; fresh: %s", i, clip(r.Canon), clip(refRes[i].Canon)), attrs)
		case r.Canon != refRes[i].Canon:
			cx.Fail(fmt.Sprintf("C07/freshness/%s.%s", o.Subj, o.Fn), fmt.Sprintf("op %d on the reused instance: %s ; fresh: %s", i, clip(r.Canon), clip(refRes[i].Canon)), attrs)
		}
		if r.Aliased != "" {
			cx.Fail(fmt.Sprintf("C07/input-aliasing/%s.%s", o.Subj, o.Fn), fmt.Sprintf("what op %d returned changed when the caller overwrote its own input buffer: %s", i, r.Aliased), attrs)
		}
		if r.Late > 0 {
			cx.Fail(fmt.Sprintf("C07/late-delivery/%s.%s", o.Subj, o.Fn), fmt.Sprintf("op %d returned while %d document(s) were still on their way to the result channel (capacity %d)", i, r.Late, o.ChanCap), attrs)
		}
		if strings.HasPrefix(r.Canon, "error") {
			prevAbortOrDiff[o.Subj] = true
		}
		// a buffer-returning API's result is only valid until the next call on the same subject: an unrelated
		// call in between must not touch it
		live := retained[:0]
		for _, k := range retained {
			if k.until == "" || k.until != o.Subj {
				live = append(live, k)
			}
		}
		retained = live
		// stability of everything returned earlier (Reuse results of the same subject excepted)
		for _, k := range retained {
			if s := snapshot(k.vals); s != k.snap {
				cx.Fail(fmt.Sprintf("C07/stability/%s.%s", c.Ops[k.op].Subj, c.Ops[k.op].Fn), fmt.Sprintf("value returned by op %d changed after op %d (%s): was %s, now %s", k.op, i, o, clip(k.snap), clip(s)), map[string]any{"subject": c.Ops[k.op].Subj, "fn": c.Ops[k.op].Fn, "later": o.Subj + "." + o.Fn})
				break
			}
		}
		for _, kw := range writers {
			if kw.w.NCalls() != kw.calls {
				cx.Fail(fmt.Sprintf("C07/stability/late-write/%s.%s", c.Ops[kw.op].Subj, c.Ops[kw.op].Fn), fmt.Sprintf("the io.Writer handed to op %d received %d more Write call(s) during op %d (%s)", kw.op, kw.w.NCalls()-kw.calls, i, o), map[string]any{"subject": c.Ops[kw.op].Subj, "fn": c.Ops[kw.op].Fn, "later": o.Subj + "." + o.Fn})
				break
			}
		}
		if r.Writer != nil {
			writers = append(writers, keptWriter{op: i, w: r.Writer, calls: r.Writer.NCalls()})
		}
		// (an aborted call is not judged for freshness, but what it did hand over before it failed is the caller's)
		if !r.Volatile && len(r.Retained) > 0 {
			if r.Snap == "" {
				r.Snap = snapshot(r.Retained)
			}
			retained = append(retained, kept{op: i, vals: r.Retained, snap: r.Snap})
		}
		if r.Err != nil { // (also of an aborted call, and whatever the Reuse option says about the documents)
			v := []any{keptErr{r.Err}}
			retained = append(retained, kept{op: i, vals: v, snap: snapshot(v)})
		}
		if !r.Aborted && r.Buffer != nil {
			v := []any{r.Buffer}
			retained = append(retained, kept{op: i, vals: v, snap: snapshot(v), until: o.Subj})
		}
	}
	if nontrivial {
		cx.NonTrivial()
	}
}

var _ = bytes.Equal

func TestC07(t *testing.T) { sim.Main(t, "C07", propC07) }
