package checks

import (
	"bytes"
	"encoding/json"
	"fmt"
	"regexp"
	"testing"

	"pgregory.net/rapid"

	"github.com/ohler55/ojg/gen"

	"verif/harness/gens"
	"verif/harness/ref"
	"verif/harness/sim"
)

func jsonNumber(s string) json.Number { return json.Number(s) }

// streamCase is one C03/C09 case: an input, a document mode and K delivery schedules.
type streamCase struct {
	Family  string
	Input   []byte
	Mode    int
	Scheds  []*sim.Schedule
	Sweep   bool
	SEN     bool // input is SEN (only SEN front-ends compared)
	SENTok  bool // SEN input stays inside sen.md (tokenizer compared too)
	Padded  bool
	Used    int           // history of the parser objects (frontends.go: feUsed)
	Reuse   bool          // the parsers' Reuse option (frontends.go: feReuse)
	BReset  bool          // one Builder per token stream, Reset between documents (frontends.go: feBuilderReset)
	ChanCap int           // channel mode: capacity of the result channels, served by the simulator's consumer; -1: room for everything
	Fault   *sim.Schedule // fault configuration: a delivery schedule whose reader fails (non-EOF) at an offset
	Variant int           // which package-level variants (Must*, *String, *Load ...) are run besides (frontends.go: pkgVariant)
	feat    map[string]any
}

func (c *streamCase) render() any {
	in := string(c.Input)
	if len(in) > 300 {
		in = fmt.Sprintf("%q…(%d bytes)…%q", in[:100], len(in), in[len(in)-120:])
	} else {
		in = fmt.Sprintf("%q", in)
	}
	var ss []string
	for _, s := range c.Scheds {
		ss = append(ss, s.String())
	}
	return map[string]any{"family": c.Family, "input": in, "mode": []string{"single", "callback", "channel"}[c.Mode], "schedules": ss, "sweep": c.Sweep, "parser_history": []string{"fresh", "parsed another document before", "previous streamed call failed mid-document", "previous call failed after a complete document"}[c.Used], "reuse_option": c.Reuse, "one_builder_per_stream": c.BReset, "result_channel_capacity": c.ChanCap, "reader_fault": fmt.Sprint(c.Fault)}
}

var bom = []byte{0xEF, 0xBB, 0xBF}

var maxIntBoundary = regexp.MustCompile(`922337203685477580[0-7]`)
var maxIntBoundaryFrac = regexp.MustCompile(`922337203685477580[0-7][.eE]`)

// hasMaxIntBoundaryLiteral: some number literal has the positive integer part
// 9223372036854775800..9223372036854775807 (19 digits, not preceded by a digit or a minus sign and not
// itself the fraction or exponent of a number).
func hasMaxIntBoundaryLiteral(in []byte) bool {
	dig := func(i int) bool { return i >= 0 && i < len(in) && '0' <= in[i] && in[i] <= '9' }
	at := func(i int) byte {
		if i >= 0 && i < len(in) {
			return in[i]
		}
		return 0
	}
	for _, m := range maxIntBoundary.FindAllIndex(in, -1) {
		k, e := m[0], m[1]
		if dig(e) || dig(k-1) {
			continue
		}
		switch at(k - 1) {
		case '-':
			continue // negative numbers never take the inline digit loop
		case '.', 'e', 'E':
			if dig(k - 2) {
				continue
			}
		case '+':
			if (at(k-2) == 'e' || at(k-2) == 'E') && dig(k-3) {
				continue
			}
		}
		return true
	}
	return false
}

// features are structural attributes of the input that known-finding signatures refer to.
func (c *streamCase) features() map[string]any {
	if c.feat != nil {
		return c.feat
	}
	f := map[string]any{}
	// a positive integer part 9223372036854775800..9223372036854775807 (pinned by the repo's own tests
	// to parse as json.Number from a whole buffer and as int64 byte by byte)
	f["maxint_boundary_literal"] = hasMaxIntBoundaryLiteral(c.Input)
	f["maxint_boundary_with_fraction_or_exponent"] = f["maxint_boundary_literal"] == true && maxIntBoundaryFrac.Match(c.Input)
	if c.SEN {
		depth, inStr, esc := 0, byte(0), false
		topComment, topPlus := false, false
		var prev byte
		for _, b := range c.Input {
			if inStr != 0 {
				switch {
				case esc:
					esc = false
				case b == '\\':
					esc = true
				case b == inStr:
					inStr = 0
				}
				continue
			}
			switch b {
			case '"', '\'':
				inStr = b
			case '[', '{', '(':
				depth++
			case ']', '}', ')':
				if depth > 0 {
					depth--
				}
			case '/':
				if depth == 0 {
					topComment = true
				}
			case '+':
				if depth == 0 && prev != 'e' && prev != 'E' {
					topPlus = true
				}
			}
			if b != ' ' && b != '\t' && b != '\n' && b != '\r' {
				prev = b
			}
		}
		f["sen_toplevel_comment"] = topComment
		f["sen_toplevel_plus"] = topPlus
	}
	c.feat = f
	return f
}

func drawStreamCase(t *rapid.T, forC09 bool) *streamCase {
	c := &streamCase{ChanCap: -1}
	depth := 3
	var fam int
	if forC09 {
		fam = sim.Weighted(t, "family", 0, 8, 0, 0)
		if sim.Intn(t, 4, "usedparser") == 3 {
			c.Used = 1 + sim.Intn(t, 3, "used")
		}
	} else {
		fam = sim.Weighted(t, "family", 4, 4, 3, 4, 1)
		if sim.Intn(t, 4, "usedparser") == 3 {
			c.Used = 1 + sim.Intn(t, 3, "used")
		}
		c.Reuse = sim.Intn(t, 6, "reuse") == 5
		c.BReset = sim.Bool(t, "builderreset")
	}
	switch fam {
	case 0:
		c.Family = "valid"
		c.Input = gens.Doc(t, depth)
	case 1:
		c.Family = "mutated"
		c.Input = gens.Doc(t, depth)
		n := 1 + sim.Intn(t, 2, "nmut")
		for i := 0; i < n; i++ {
			c.Input = gens.Mutate(t, c.Input)
		}
	case 2:
		c.Family = "multi"
		c.Input = gens.Multi(t, 2)
		if sim.Intn(t, 3, "mutmulti") == 2 {
			c.Input = gens.Mutate(t, c.Input)
		}
		c.Mode = 1 + sim.Intn(t, 2, "mode")
	case 4:
		// no document at all: nothing, white space, a BOM
		c.Family = "empty"
		c.Input = []byte([]string{"", " ", "\n", " \t\r\n ", "\xef\xbb\xbf", "\xef\xbb\xbf \n", "\n\n\n\n"}[sim.Intn(t, 7, "empty")])
		c.SEN = sim.Bool(t, "emptysen")
		c.SENTok = c.SEN
		c.Mode = sim.Intn(t, 3, "mode")
	default:
		c.Family = "sen"
		c.SEN = true
		c.Input, c.SENTok = gens.SENDoc(t, depth)
		if sim.Intn(t, 4, "senmulti") == 3 {
			c.Mode = 1 + sim.Intn(t, 2, "mode")
		}
	}
	if !c.SEN && c.Mode == modeSingle && !forC09 && sim.Intn(t, 8, "multimode") == 7 {
		c.Mode = 1 + sim.Intn(t, 2, "mode")
	}
	if !forC09 && c.Mode == modeChan && sim.Intn(t, 3, "boundedchan?") == 0 {
		c.ChanCap = sim.Intn(t, 3, "chancap")
	}
	if !forC09 && !c.SEN && sim.Intn(t, 12, "bom") == 11 {
		c.Input = append(append([]byte(nil), bom...), c.Input...)
	}
	// >=4096-byte variant: a chosen interior offset lands exactly on k*4096
	if sim.Intn(t, 6, "pad") == 5 && len(c.Input) > 0 && !bytes.HasPrefix(c.Input, bom) {
		at := sim.Intn(t, len(c.Input), "padat")
		if c.SEN {
			// whitespace padding only (valid for SEN too)
			pad := 4096 - at
			if pad > 0 {
				c.Input = append(bytes.Repeat([]byte{' '}, pad), c.Input...)
			}
		} else {
			c.Input, _ = gens.PadTo(t, c.Input, at, c.Mode != modeSingle)
		}
		c.Padded = true
	}
	body := c.Input
	if bytes.HasPrefix(body, bom) {
		body = body[3:]
	}
	var interior []int
	if !c.Padded {
		sc := ref.ScanJSON(body)
		interior = ref.Interior(sc.Tokens, 256)
		if bytes.HasPrefix(c.Input, bom) {
			for i := range interior {
				interior[i] += 3
			}
			interior = append([]int{1, 2, 3}, interior...)
		}
	}
	k := 1 + sim.Intn(t, 4, "nsched")
	for i := 0; i < k; i++ {
		if c.Padded && i == 0 {
			c.Scheds = append(c.Scheds, &sim.Schedule{Style: "full", FailAt: -1, EOFWithData: sim.Bool(t, "eofWithData")})
			continue
		}
		c.Scheds = append(c.Scheds, sim.DrawSchedule(t, len(c.Input), interior))
	}
	c.Sweep = len(c.Input) >= 2 && len(c.Input) <= 64 && sim.Intn(t, 3, "sweep") == 2
	c.Variant = sim.Intn(t, 1<<12, "variant")
	if !forC09 && sim.Intn(t, 5, "readerfault") == 4 {
		c.Fault = sim.DrawSchedule(t, len(c.Input), interior)
		c.Fault.FailAt = sim.Intn(t, len(c.Input)+1, "failat")
		c.Fault.FailSticky = sim.Bool(t, "failsticky")
		c.Fault.FailKind = sim.Intn(t, len(sim.FailErrors), "failkind")
		c.Fault.FailData = sim.Bool(t, "failwithdata")
	}
	return c
}

// genToSimple converts a gen tree into simple values by this harness's own rule (Big stays a
// number: json.Number), independent of gen's Simplify.
func genToSimple(v any) any {
	switch tv := v.(type) {
	case nil:
		return nil
	case gen.Bool:
		return bool(tv)
	case gen.Int:
		return int64(tv)
	case gen.Float:
		return float64(tv)
	case gen.String:
		return string(tv)
	case gen.Big:
		return json.Number(string(tv))
	case gen.Array:
		out := make([]any, len(tv))
		for i, e := range tv {
			out[i] = genToSimple(nodeAny(e))
		}
		return out
	case gen.Object:
		out := make(map[string]any, len(tv))
		for k, e := range tv {
			out[k] = genToSimple(nodeAny(e))
		}
		return out
	}
	return v
}

// simplifyAgrees: gen's own Simplify() must equal genToSimple up to its documented Big->string conversion.
func simplifyAgrees(simp, mine any) bool {
	switch tm := mine.(type) {
	case json.Number:
		s, ok := simp.(string)
		return ok && s == string(tm)
	case []any:
		ts, ok := simp.([]any)
		if !ok || len(ts) != len(tm) {
			return false
		}
		for i := range tm {
			if !simplifyAgrees(ts[i], tm[i]) {
				return false
			}
		}
		return true
	case map[string]any:
		ts, ok := simp.(map[string]any)
		if !ok || len(ts) != len(tm) {
			return false
		}
		for k, v := range tm {
			sv, ok := ts[k]
			if !ok || !simplifyAgrees(sv, v) {
				return false
			}
		}
		return true
	}
	return ref.Exact(simp) == ref.Exact(mine)
}

const (
	levelExact = 1 // L1
	levelValue = 2 // L2
)

// agree applies the C03 oracle to two executions that the property says must agree.
func agree(cx *sim.Ctx, c *streamCase, oracle string, base, o *outcome, level int) {
	cls := func(what string) string {
		return fmt.Sprintf("C03/%s/%s~%s/%s", oracle, o.Name, base.Name, what)
	}
	attrs := map[string]any{"family": c.Family, "mode": c.Mode, "a": o.Name, "b": base.Name}
	for k, v := range c.features() {
		attrs[k] = v
	}
	if o.Hung || o.Panic != nil {
		cx.Fail(cls(o.class()), fmt.Sprintf("%s: %s", o.Name, o), attrs)
		return
	}
	if base.Hung || base.Panic != nil {
		cx.Fail(cls("base-"+base.class()), fmt.Sprintf("%s: %s", base.Name, base), attrs)
		return
	}
	if o.class() != base.class() {
		cx.Fail(cls("outcome"), fmt.Sprintf("%s -> %s ; %s -> %s", o.Name, o, base.Name, base), attrs)
		return
	}
	if o.class() == "error" {
		// "an error in every case": which documents were handed over before the failure is not
		// part of the agreement the property states (see DESIGN §6, false alarms corrected)
		if len(o.Docs) != len(base.Docs) {
			sim.Probe("both_error_delivered_prefix_differs")
		}
		return
	}
	if len(o.Docs) != len(base.Docs) {
		cx.Fail(cls("doc-count"), fmt.Sprintf("%s delivered %d documents, %s delivered %d", o.Name, len(o.Docs), base.Name, len(base.Docs)), attrs)
		return
	}
	for i := range o.Docs {
		if level == levelExact {
			ea, eb := ref.Exact(o.Docs[i]), ref.Exact(base.Docs[i])
			if ea != eb {
				// classify: same value but different Go type, or different value
				what := "value"
				if ok, _ := ref.SameValue(o.Docs[i], base.Docs[i]); ok {
					what = "type"
				}
				cx.Fail(cls(what), fmt.Sprintf("doc %d: %s = %s ; %s = %s", i, o.Name, clip(ea), base.Name, clip(eb)), attrs)
				return
			}
		} else {
			if ok, where := ref.SameValue(o.Docs[i], base.Docs[i]); !ok {
				cx.Fail(cls("value"), fmt.Sprintf("doc %d differs at %s: %s = %s ; %s = %s", i, where, o.Name, clip(ref.Exact(o.Docs[i])), base.Name, clip(ref.Exact(base.Docs[i]))), attrs)
				return
			}
		}
	}
}

// faulted judges a streamed run whose reader failed with a non-EOF error before the input was complete
// (fault configuration, judged separately from the fault-free runs): the call must report an error - a reader
// failure is never a successful parse of a shorter input -, must neither panic nor hang, and whatever it handed
// over before the failure must be the beginning of what the fault-free run of the same front-end hands over
// (wrong data is never excused by a fault; missing data is).
func faulted(cx *sim.Ctx, c *streamCase, base, o *outcome) {
	if !o.FaultHit {
		return // the call stopped reading before the failing offset (an earlier syntax error)
	}
	sim.Fault("reader_error_mid_stream")
	attrs := map[string]any{"family": c.Family, "mode": c.Mode, "a": o.Name}
	for k, v := range c.features() {
		attrs[k] = v
	}
	cls := func(what string) string { return fmt.Sprintf("C03/reader-fault/%s/%s", o.Name, what) }
	if o.Hung || o.Panic != nil {
		cx.Fail(cls(o.class()), fmt.Sprintf("%s with %s: %s", o.Name, c.Fault, o), attrs)
		return
	}
	if o.Err == nil {
		cx.Fail(cls("error-swallowed"), fmt.Sprintf("%s with %s: the reader failed but the call reports success: %s", o.Name, c.Fault, o), attrs)
		return
	}
	if base.Hung || base.Panic != nil || c.Mode == modeSingle {
		return
	}
	if len(o.Docs) > len(base.Docs) {
		cx.Fail(cls("extra-document"), fmt.Sprintf("%s with %s handed over %d documents, the fault-free run %d", o.Name, c.Fault, len(o.Docs), len(base.Docs)), attrs)
		return
	}
	for i := range o.Docs {
		if ea, eb := ref.Exact(o.Docs[i]), ref.Exact(base.Docs[i]); ea != eb {
			what := "wrong-document"
			if ok, _ := ref.SameValue(o.Docs[i], base.Docs[i]); ok {
				what = "document-type" // the chunking findings seen through the fault run's own chunking
			}
			cx.Fail(cls(what), fmt.Sprintf("%s with %s: document %d handed over before the failure is %s, fault-free %s", o.Name, c.Fault, i, clip(ea), clip(eb)), attrs)
			return
		}
	}
}

func clip(s string) string {
	if len(s) > 400 {
		return s[:200] + "…" + s[len(s)-150:]
	}
	return s
}

func sweepSchedules(n int) []*sim.Schedule {
	var out []*sim.Schedule
	for o := 1; o < n; o++ {
		out = append(out, &sim.Schedule{Style: "sweep", Cuts: []int{o}, FailAt: -1, EOFWithData: o%2 == 0})
	}
	return out
}

// cutProbes classifies where Read results ended relative to the reference token table.
func cutProbes(cx *sim.Ctx, c *streamCase, toks []ref.Span, shift int, bounds []int) (inside bool) {
	if len(bounds) == 0 {
		return false
	}
	body := c.Input[shift:]
	ti := 0
	for _, bnd := range bounds {
		b := bnd - shift
		if b <= 0 {
			if bnd > 0 && shift == 3 {
				sim.Probe("cut_inside_bom")
			}
			continue
		}
		for ti < len(toks) && toks[ti].End <= b {
			ti++
		}
		if bnd%4096 == 0 {
			sim.Probe("cut_at_4096_multiple")
		}
		if ti >= len(toks) || toks[ti].Start >= b {
			if b < len(body) && body[b-1] == '\n' {
				sim.Probe("cut_right_after_newline")
			}
			continue
		}
		tk := toks[ti]
		switch tk.Kind {
		case ref.TString, ref.TKey:
			inside = true
			sim.Probe("cut_inside_string")
			if bnd%4096 == 0 {
				sim.Probe("cut_at_4096_in_string")
			}
			if body[b-1] == '\\' {
				sim.Probe("cut_right_after_backslash")
			}
			for k := 1; k <= 5 && b-k > tk.Start; k++ {
				if body[b-k] == 'u' && body[b-k-1] == '\\' {
					if k < 5 {
						sim.Probe("cut_inside_unicode_escape")
					} else if b+1 < len(body) && body[b] == '\\' && body[b+1] == 'u' {
						sim.Probe("cut_between_escape_pair")
					}
					break
				}
			}
			if b == tk.Start+1 {
				sim.Probe("cut_after_open_quote")
			}
		case ref.TNumber:
			inside = true
			sim.Probe("cut_inside_number")
			if bnd%4096 == 0 {
				sim.Probe("cut_at_4096_in_number")
			}
			switch body[b-1] {
			case '-':
				sim.Probe("cut_after_minus")
			case '.':
				sim.Probe("cut_after_dot")
			case 'e', 'E':
				sim.Probe("cut_after_e")
			case '+':
				sim.Probe("cut_after_exp_sign")
			}
		case ref.TLiteral:
			inside = true
			sim.Probe("cut_inside_literal")
		case ref.TSpace:
			sim.Probe("cut_inside_whitespace")
			if body[b-1] == '\n' {
				sim.Probe("cut_right_after_newline")
			}
			if body[b-1] == '\r' && body[b] == '\n' {
				sim.Probe("cut_between_cr_lf")
			}
		}
	}
	return inside
}

func propC03(cx *sim.Ctx) {
	sim.Declare([]string{"cut_inside_string", "cut_inside_number", "cut_inside_literal", "cut_inside_whitespace", "cut_inside_unicode_escape", "cut_between_escape_pair", "cut_right_after_backslash", "cut_after_open_quote", "cut_after_minus", "cut_after_dot", "cut_after_e", "cut_after_exp_sign", "cut_right_after_newline", "cut_between_cr_lf", "cut_inside_bom", "cut_at_4096_multiple", "cut_at_4096_in_string", "cut_at_4096_in_number", "strict_json_vs_sen", "both_error_delivered_prefix_differs", "producer_stalled_on_full_channel"}, []string{"reader_error_mid_stream"})
	c := drawStreamCase(cx.T, false)
	cx.Render(c.render)
	cx.Key(c.Input, c.Mode, c.Used, c.Reuse, c.BReset, c.ChanCap)
	feUsed, feReuse, feBuilderReset, feChanCap = c.Used, c.Reuse, c.BReset, c.ChanCap
	defer func() { feUsed, feReuse, feBuilderReset, feChanCap = 0, false, false, -1 }()
	for _, s := range c.Scheds {
		cx.Key(s.String())
	}
	in := c.Input
	shift := 0
	if bytes.HasPrefix(in, bom) {
		shift = 3
	}
	scan := ref.ScanJSON(in[shift:])
	scheds := c.Scheds
	if c.Sweep {
		scheds = append(append([]*sim.Schedule(nil), scheds...), sweepSchedules(len(in))...)
		cx.Key("sweep")
	}
	inside := false
	note := func(o *outcome) *outcome {
		cx.Exec()
		cx.Steps(o.Calls)
		if o.Bounds != nil && cutProbes(cx, c, scan.Tokens, shift, o.Bounds) {
			inside = true
		}
		return o
	}

	if c.SEN {
		b0 := note(senParse(in, c.Mode))
		cx.BaselineDone()
		var tp *outcome
		if c.SENTok {
			tp = note(senTokParse(in, c.Mode))
			agree(cx, c, "sen-front-ends", b0, tp, levelValue)
		}
		for _, s := range scheds {
			agree(cx, c, "sen-chunking", b0, note(senParseReader(in, s, c.Mode)), levelExact)
			if tp != nil {
				agree(cx, c, "sen-chunking", tp, note(senTokLoad(in, s, c.Mode)), levelExact)
			}
		}
		if c.SENTok { // (the package-level functions know no token functions: inputs inside sen.md only)
			agree(cx, c, "sen-variants", b0, note(pkgVariant("sen", c.Variant, in, scheds[0], c.Mode)), levelExact)
			t1 := note(pkgVariant("sentok", c.Variant>>3, in, scheds[0], c.Mode))
			agree(cx, c, "sen-variants", t1, note(pkgVariant("sentok", c.Variant>>5, in, scheds[0], c.Mode)), levelExact)
			if tp != nil && c.Mode != modeSingle {
				agree(cx, c, "sen-variants", tp, t1, levelExact)
			}
		}
		if c.Fault != nil {
			faulted(cx, c, b0, note(senParseReader(in, c.Fault, c.Mode)))
			if tp != nil {
				faulted(cx, c, tp, note(senTokLoad(in, c.Fault, c.Mode)))
			}
		}
		if inside || c.Padded {
			cx.NonTrivial()
		}
		return
	}

	b0 := note(ojParse(in, c.Mode))
	cx.BaselineDone()
	tp := note(ojTokParse(in, c.Mode))
	gp := note(genParse(in, c.Mode))
	agree(cx, c, "front-ends", b0, tp, levelValue)
	// gen: compare the gen tree (by this harness's own conversion) and gen's Simplify
	gps := &outcome{Name: gp.Name, Err: gp.Err, Panic: gp.Panic, Hung: gp.Hung}
	simplifyOK := true
	for _, d := range gp.Docs {
		mine := genToSimple(d)
		gps.Docs = append(gps.Docs, mine)
		if n, ok := d.(gen.Node); ok && n != nil {
			if !simplifyAgrees(n.Simplify(), mine) {
				simplifyOK = false
			}
		}
	}
	agree(cx, c, "front-ends", b0, gps, levelValue)
	if !simplifyOK {
		cx.Fail("C03/front-ends/gen.Simplify", "Simplify() of gen.Parser's tree differs from the tree itself beyond Big->string", nil)
	}
	strict := c.Mode == modeSingle && scan.Valid && shift == 0
	var sp *outcome
	if strict {
		sim.Probe("strict_json_vs_sen")
		sp = note(senParse(in, c.Mode))
		agree(cx, c, "front-ends-sen", b0, sp, levelValue)
	}
	var vp *outcome
	if c.Mode == modeSingle {
		vp = note(ojValidate(in))
	}
	for _, s := range scheds {
		agree(cx, c, "chunking", b0, note(ojParseReader(in, s, c.Mode)), levelExact)
		agree(cx, c, "chunking", tp, note(ojTokLoad(in, s, c.Mode)), levelExact)
		agree(cx, c, "chunking", gp, note(genParseReader(in, s, c.Mode)), levelExact)
		if sp != nil {
			agree(cx, c, "chunking", sp, note(senParseReader(in, s, c.Mode)), levelExact)
		}
		if vp != nil {
			agree(cx, c, "chunking", vp, note(ojValidateReader(in, s)), levelExact)
		}
	}
	// the package-level variants (pooled instances with whatever past the process has given them)
	agree(cx, c, "variants", b0, note(pkgVariant("oj", c.Variant, in, scheds[0], c.Mode)), levelExact)
	{
		t1 := note(pkgVariant("ojtok", c.Variant>>3, in, scheds[0], c.Mode))
		agree(cx, c, "variants", t1, note(pkgVariant("ojtok", c.Variant>>5, in, scheds[0], c.Mode)), levelExact)
		if c.Mode != modeSingle {
			agree(cx, c, "variants", tp, t1, levelExact)
		}
		v1 := note(pkgVariant("ojval", c.Variant>>7, in, scheds[0], c.Mode))
		agree(cx, c, "variants", v1, note(pkgVariant("ojval", c.Variant>>9, in, scheds[0], c.Mode)), levelExact)
	}
	if c.Fault != nil {
		faulted(cx, c, b0, note(ojParseReader(in, c.Fault, c.Mode)))
		faulted(cx, c, tp, note(ojTokLoad(in, c.Fault, c.Mode)))
		faulted(cx, c, gp, note(genParseReader(in, c.Fault, c.Mode)))
		if sp != nil {
			faulted(cx, c, sp, note(senParseReader(in, c.Fault, c.Mode)))
		}
		if vp != nil {
			faulted(cx, c, vp, note(ojValidateReader(in, c.Fault)))
		}
	}
	ntok := 0
	for _, tk := range scan.Tokens {
		if tk.Kind != ref.TSpace {
			ntok++
		}
	}
	if (inside || c.Padded) && ntok >= 2 {
		cx.NonTrivial()
	}
}

func TestC03(t *testing.T) { sim.Main(t, "C03", propC03) }
