package checks

import (
	"fmt"
	"os"
	"reflect"
	"regexp"
	"sort"
	"strconv"
	"strings"
	"testing"

	"pgregory.net/rapid"

	"github.com/ohler55/ojg"
	"github.com/ohler55/ojg/alt"
	"github.com/ohler55/ojg/gen"
	"github.com/ohler55/ojg/jp"
	"github.com/ohler55/ojg/oj"
	"github.com/ohler55/ojg/pretty"
	"github.com/ohler55/ojg/sen"
	vsync "github.com/ohler55/ojg/verifsync"

	za "verif/harness/gens/zoo/a"
	"verif/harness/ref"
	"verif/harness/sim"
)

// C08 — concurrent use of package-level APIs and shared paths is safe.
//
// N tasks run real ojg calls under the deterministic scheduler (sim.RunScheduled): one task is
// runnable at a time, the choice is drawn from the seed at every pool/mutex/op sim point. The
// race detector is the in-run invariant monitor (its log must not grow during a run); every
// operation's result must equal its result in a sequential reference pass; values returned to a
// task are re-inspected by that task after each of its later operations.

// ---- shared immutable fixtures, built before any worker starts
var (
	c08Exprs   []jp.Expr
	c08Scripts []*jp.Script
	c08Opts    []*ojg.Options
	c08Docs    [][]byte
	c08SenDocs [][]byte
	c08Once    bool
	c08Keeper  *alt.Recomposer
	c08Typed   *alt.Recomposer

	c08StructExprs []jp.Expr

	c08OrderedExprs []jp.Expr
)

// zDir and zFile refer to each other (plans of mutually recursive types are built together).
type zDir struct {
	Name  string
	Files []*zFile
}

type zFile struct {
	Name   string
	Size   int
	Parent *zDir
}

// spelled is recomposed from maps that spell a field's key in more than one way.
type spelled struct {
	Name  string
	Count int
	Alias string `json:"label"`
}

// typedTarget is recomposed from sources that hold typed maps and slices (not the map[string]any / []any a
// parser or Decompose produces).
type typedTarget struct {
	Labels map[string]string
	Limits map[string]int
	Nested map[string]map[string]int
	Names  []string
	Nums   []int
	In     zInner
	M      map[string]zInner
	// struct types reachable through containers of pointers only (registering the owner covers them too)
	Ptrs []*zLeafA
	PM   map[string]*zLeafB
}

type zLeafA struct{ V int }

type zLeafB struct {
	W string
	A *zLeafA
}

func typedSource(a, b int) map[string]any {
	labels := map[string]string{}
	limits := map[string]int{}
	for i := 0; i <= a%5; i++ {
		labels[fmt.Sprintf("l%d-%d", a, i)] = fmt.Sprintf("v%d", b+i)
		limits[fmt.Sprintf("m%d-%d", b, i)] = a*100 + i
	}
	names := make([]string, 1+b%4)
	nums := make([]int, 1+a%3)
	for i := range names {
		names[i] = fmt.Sprintf("n%d.%d", a, i)
	}
	for i := range nums {
		nums[i] = b*10 + i
	}
	return map[string]any{
		"Labels": labels, "Limits": limits, "Names": names, "Nums": nums,
		"Nested": map[string]map[string]int{"x": {"a": a}, "y": {"b": b, "c": a + b}},
		"In":     map[string]any{"S": "s", "N": a},
		"M":      map[string]map[string]any{"k": {"S": "t", "N": b}, "j": {"N": a}},
		"Ptrs":   []any{map[string]any{"V": a}, nil, map[string]any{"V": b}},
		"PM":     map[string]any{"p": map[string]any{"W": fmt.Sprint("w", a), "A": map[string]any{"V": b}}, "q": nil},
	}
}

func structData(a, b int) *zOuter {
	in := zInner{S: []string{"", "s", "x y"}[a%3], N: b % 3, F: []float64{0, 1.5, 2.5}[b%3]}
	o := &zOuter{A: a % 4, In: in, B: b%2 == 0, Tg: []string{"", "t"}[a%2]}
	for i := 0; i < 1+a%3; i++ {
		o.L = append(o.L, zInner{S: fmt.Sprintf("l%d", i), N: i + b%2, F: float64(i)})
	}
	if a%2 == 0 {
		o.Ptr = &zInner{S: "p", N: a, F: 1.5}
	}
	if b%3 == 0 {
		o.Any = map[string]any{"k": zInner{S: "any", N: 1}}
	}
	return o
}

type keeper struct {
	N     int
	Props map[string]any
}

func c08Fixtures() {
	if c08Once {
		return
	}
	c08Once = true
	c08Shared()
	c08Docs = [][]byte{
		[]byte(`{"a":1,"b":[1,2,3],"c":{"d":2,"e":[{"x":"y"},{"x":"z","d":5}]}}`), []byte(`[1,2.5,"s",null,true,{"k":[]}]`), []byte(`{"a":{"d":1},"c":[{"d":3},{"d":0}]}`),
		[]byte(`"just a string"`), []byte(`123456789012345678901234567890`), []byte(`{"a":`), []byte(`[1,2`), []byte(`{"s":"é\né\\","t":[[],[[]],{}]}`), []byte(`1 2 3`), []byte(``),
	}
	c08SenDocs = [][]byte{[]byte(`{a:1 b:[1 2 3] c:{d:2}}`), []byte(`[a b "c d" 'e']`), []byte(`{a:`), []byte(`[1 2 // c
 3]`)}
}

// c08Shared builds the objects the tasks share (paths, scripts, a recomposer) anew. It is part of every
// restart of the world: an object that finishes initialising itself lazily on first use (normalising a
// constant, compiling a pattern, caching a plan) must meet its first uses concurrently, not in a warm-up.
func c08Shared() {
	c08Exprs, c08Scripts = c08Exprs[:0:0], c08Scripts[:0:0]
	// (the option values the tasks pass by pointer are shared objects too: built from literals, never used before)
	c08Opts = []*ojg.Options{
		{Sort: true}, {Sort: true, Indent: 2}, {Sort: true, OmitNil: true, OmitEmpty: true}, {Sort: true, UseTags: true}, {Sort: true, KeyExact: true, Indent: 1},
		{Sort: true, NestEmbed: true, OmitEmpty: true}, {Sort: true, Tab: true, UseTags: true, OmitNil: true},
		{Sort: true, CreateKey: "type"}, {Sort: true, CreateKey: "^", FullTypePath: true}, {Sort: true, CreateKey: "type", FullTypePath: true, OmitNil: true, KeyExact: true},
		{Sort: true, BytesAs: ojg.BytesAsBase64, TimeFormat: "nano"}, {Sort: true, TimeMap: true, CreateKey: "type"},
		{Sort: true, HTMLUnsafe: true}, {Sort: true, HTMLUnsafe: true, Indent: 2, OmitNil: true},
	}
	// the first six are plain paths (also used as Set targets), the rest exercise every filter feature
	for _, s := range []string{"$.a", "$.b[1]", "$..d", "$.b[*]", "$['a','c']", "$.b[0:2]", "$.b[?(@ > 1)]", "$.c[?(@.d > 1)].d", "$.*", "$..[?(@.d)]", "$.b[-1]", "$.c.e[?(@.x == 'y')]", "$.c[?(length(@) > 0)]",
		"$.c.e[?(@.x =~ 'y|q')]", "$..[?(search(@.x, 'z'))]", "$.b[?(@ in [1,3])]", "$.c.e[?(@.x ~= /^[yz]$/)]", "$.c.e[?(match(@.x, '.'))]", "$.c.e[?(@.d exists true)]", "$.b[?(@ + 1 > 2)]", "$.c.e[?(@.x =~ 'z')].d", "$.c.e[?(count(@.*) > 1)]"} {
		c08Exprs = append(c08Exprs, jp.MustParseString(s))
	}
	for _, s := range []string{"(@.d > 1)", "(@.x == 'y' || @.d < 0)", "(@ > 1 && @ < 3)", "(@.d in [1,2,3])", "(length(@.s) > 1)",
		"(@.s ~= /s.r/)", "(@.s =~ 'st.')", "(@.x ~= 'y|z')", "(match(@.s, 'st.'))", "(search(@.s, 'r'))", "(search(@.s, 't'))", "(count(@.arr) == 2)", "(@.d + 1 == 3)",
		"(@.d * 2 - 1 >= 3)", "(@.d / 2 < 1)", "(!(@.d == 2))", "(@.x has true)", "(@.zz exists false)", "(@.arr empty false)", "(@.d != 2 && @.x != 'q')", "(@.d <= 2)", "(@.s =~ '^s')", "(match(@.x, 'y'))"} {
		c08Scripts = append(c08Scripts, jp.MustNewScript(s))
	}
	// scripts built through the Equation API keep the caller's raw constants (int, []any{1,2,3}, ...)
	x := jp.A().C("d")
	for _, eq := range []*jp.Equation{
		jp.In(jp.Get(x), jp.ConstList([]any{1, 2, 3})),
		jp.In(jp.Get(jp.A().C("x")), jp.ConstList([]any{"y", "q", 7, 2.5, true, nil})),
		jp.Eq(jp.Get(x), jp.ConstInt(2)),
		jp.Or(jp.Lt(jp.Get(x), jp.ConstInt(1)), jp.Gt(jp.Get(x), jp.ConstInt(2))),
		jp.And(jp.Has(jp.Get(jp.A().C("x")), jp.ConstBool(true)), jp.Regex(jp.Get(jp.A().C("s")), jp.ConstString("st."))),
		jp.Eq(jp.Length(jp.A().C("s")), jp.ConstInt(3)),
		jp.In(jp.ConstInt(2), jp.Get(jp.A().C("arr"))),
	} {
		c08Scripts = append(c08Scripts, eq.Script())
		c08Exprs = append(c08Exprs, jp.R().C("c").C("e").Filter(eq))
	}
	// paths written as Go literals keep the caller's raw members (a plain int in a Union, ...)
	c08Exprs = append(c08Exprs,
		jp.Expr{jp.Root('$'), jp.Child("b"), jp.Union{0, 2}},
		jp.Expr{jp.Root('$'), jp.Union{"a", "c"}, jp.Wildcard('*')},
		jp.Expr{jp.Root('$'), jp.Child("b"), jp.Slice{0, 2}},
		jp.Expr{jp.Root('$'), jp.Descent('.'), jp.Child("d")},
		jp.Expr{jp.Root('$'), jp.Child("c"), jp.Child("e"), jp.Union{int64(1), 0}, jp.Child("x")},
		jp.Expr{jp.Root('$'), jp.Child("b"), jp.Nth(1)},
		jp.Expr{jp.Root('$'), jp.Child("b"), jp.Union{int8(1), uint(2), 0}},
	)
	// (paths whose first match does not depend on Go's map order, for the *One / First* variants)
	c08OrderedExprs = c08OrderedExprs[:0:0]
	for _, s := range []string{"$.a", "$.b[1]", "$.b[*]", "$.b[0:2]", "$.c.e[1].x", "$.b[-1]", "$.c.e[*].x", "$.b[?(@ > 1)]"} {
		c08OrderedExprs = append(c08OrderedExprs, jp.MustParseString(s))
	}
	c08StructExprs = c08StructExprs[:0:0]
	for _, s := range []string{"$.In.S", "$.L[*].N", "$.tg", "$..N", "$['A','B']", "$.Ptr.F", "$.L[?(@.N > 0)].S", "$.Any.k.S", "$.*", "$.L[-1]", "$.In['S','F']", "$..[?(@.F > 1)]"} {
		c08StructExprs = append(c08StructExprs, jp.MustParseString(s))
	}
	c08Typed = alt.MustNewRecomposer("", nil)
	_ = c08Typed.RegisterComposer(&typedTarget{}, nil)
	_ = c08Typed.RegisterComposer(&spelled{}, nil)
	// a recomposer with a composer function that keeps the map it is handed (as user code may)
	c08Keeper = alt.MustNewRecomposer("", map[any]alt.RecomposeFunc{&keeper{}: func(m map[string]any) (any, error) {
		k := &keeper{}
		k.Props, _ = m["props"].(map[string]any)
		if n, ok := m["n"].(int64); ok {
			k.N = int(n)
		} else if f, ok := m["n"].(float64); ok {
			k.N = int(f)
		}
		return k, nil
	}})
}

type op08 struct {
	Fn   string
	O    int // option-set index
	A, B int // indexes into fixtures / small parameters
	Val  any // private data for writer ops (created before the workers start, read-only afterwards)
	Desc string

	handed [][]byte // input buffers handed to the library during exec (overwritten afterwards, as a caller may)
}

func (o *op08) String() string { return fmt.Sprintf("%s(%d,%d,o%d)%s", o.Fn, o.A, o.B, o.O, o.Desc) }

var c08Menu = []string{
	"oj.Parse", "oj.ParseString", "oj.Load", "oj.Validate", "oj.Tokenize", "oj.Unmarshal",
	"oj.JSON", "oj.JSON(opts)", "oj.Marshal", "oj.Marshal(opts)", "oj.Write", "oj.Write(opts)",
	"sen.Parse", "sen.ParseReader", "sen.String", "sen.String(opts)", "sen.Bytes", "sen.Write",
	"pretty.JSON", "pretty.SEN", "alt.Decompose", "alt.Generify", "alt.Recompose", "gen.Parser",
	"jp.Get", "jp.First", "jp.Has", "jp.Locate", "jp.Walk", "jp.Set", "jp.Del", "jp.Modify", "jp.Remove", "Script.Match", "Script.Eval",
	"sen.Unmarshal", "oj.Match",
	"oj.ValidateReader", "oj.TokenizeLoad", "oj.MatchLoad", "sen.Tokenize", "sen.Match", "sen.MatchLoad", "pretty.WriteJSON", "oj.MustParse", "sen.MustParse", "alt.Alter", "alt.Dup", "jp.String", "alt.Recompose(embedded)", "oj.Unmarshal(embedded)",
	// aborted calls: the error paths run concurrently with everybody else's calls
	"oj.Marshal(unencodable)", "oj.Marshal(failing Marshaler)", "oj.JSON(panicking Simplifier)", "oj.Write(failing writer)", "sen.Write(failing writer)",
	"sen.String(panicking Simplifier)", "oj.Load(reader error)", "oj.Parse(panicking callback)", "oj.Tokenize(panicking handler)", "sen.Parse(panicking callback)", "oj.Marshal(failing TextMarshaler)", "sen.ParseReader(reader error)", "oj.Parse(callback)", "sen.Parse(callback)", "oj.Parse(empty)", "oj.JSON(big)", "sen.String(big)", "oj.Marshal(big)", "oj.Unmarshal(invalid)", "sen.Unmarshal(invalid)", "oj.Parse(ints)", "alt.Generify(struct)", "alt.GenAlter(struct)", "alt.Alter(struct)", "sen.Unmarshal(keeper)", "oj.Unmarshal(keeper)", "oj.Write(pooled, failing writer)", "sen.Write(pooled, failing writer)", "oj.Write(big, failing Marshaler)", "sen.Write(big, panicking Simplifier)", "oj.Write(big)", "sen.Write(big)",
	// shared paths over the caller's own structs; recomposing from typed (not parsed) sources
	"jp.Get(struct)", "jp.First(struct)", "jp.Has(struct)", "jp.Set(struct)", "jp.Walk(struct)", "jp.Locate(struct)", "jp.Modify(struct)",
	"alt.Recompose(typed maps)", "alt.Recompose(gen)", "Recomposer.Recompose(typed maps)", "alt.Recompose(slices)",
	// one of many struct types (whatever is keyed, hashed or cached per type meets many types)
	"alt.Decompose(many types)", "oj.JSON(many types)", "sen.String(many types)", "alt.Generify(many types)",
	// a path parsed here and now (not a shared one), extended with the builder methods and used
	"jp.Parse+extend", "jp.ParseString+Get",
	// the *One / Must* / gen-node variants of the shared-path operations
	"jp.SetOne", "jp.DelOne", "jp.ModifyOne", "jp.RemoveOne", "jp.MustSet", "jp.MustDel", "jp.MustModify", "jp.MustRemove", "jp.FirstFound",
	"jp.GetNodes(gen)", "jp.FirstNode(gen)", "jp.Get(gen)", "jp.Set(gen)", "jp.Has(gen)", "jp.Locate(gen)", "jp.Remove(gen)", "jp.BracketString+Normal",
	// the Must* / *Reader variants of the pooled package-level functions, valid and failing
	"sen.MustParseReader", "sen.MustParseReader(invalid or reader error)", "oj.MustLoad", "oj.MustLoad(invalid or reader error)", "oj.MustParse(invalid)", "sen.MustParse(invalid)",
	"oj.MustParseString", "oj.ParseString(invalid)", "sen.MustWrite(failing writer)", "sen.Write(failing writer, big)",
	// sources that spell a key in more than one way
	"alt.Recompose(two spellings)", "Recomposer.Recompose(two spellings)",
}

// c08ManyTypes: 64 struct types of the same shape with different field names.
var c08ManyTypes = func() []reflect.Type {
	var ts []reflect.Type
	for i := 0; i < 64; i++ {
		ts = append(ts, reflect.StructOf([]reflect.StructField{
			{Name: fmt.Sprintf("N%d", i), Type: reflect.TypeOf(0)},
			{Name: fmt.Sprintf("S%d", i), Type: reflect.TypeOf("")},
			{Name: "In", Type: reflect.TypeOf(zInner{})},
		}))
	}
	return ts
}()

func manyTypesValue(a, b int) any {
	rv := reflect.New(c08ManyTypes[b%len(c08ManyTypes)])
	rv.Elem().Field(0).SetInt(int64(a))
	rv.Elem().Field(1).SetString(fmt.Sprintf("s%d", a))
	rv.Elem().Field(2).Set(reflect.ValueOf(zInner{S: "in", N: a}))
	return rv.Interface()
}

type failingMarshaler struct{ N int }

func (f failingMarshaler) MarshalJSON() ([]byte, error) {
	return nil, fmt.Errorf("verif: injected MarshalJSON error %d", f.N)
}

type failingTextMarshaler struct{ N int }

func (f failingTextMarshaler) MarshalText() ([]byte, error) {
	return nil, fmt.Errorf("verif: injected MarshalText error %d", f.N)
}

func drawVal08(t *rapid.T) (any, string) {
	// every draw is recorded in sig, so the description identifies the value completely
	var sig []string
	d := func(n int, label string) int {
		v := sim.Intn(t, n, label)
		sig = append(sig, strconv.Itoa(v))
		return v
	}
	mk := func() zInner {
		return zInner{S: []string{"", "s", "x y"}[d(3, "zs")], N: d(3, "zn"), F: []float64{0, 1.5}[d(2, "zf")]}
	}
	var v any
	var name string
	switch d(9, "val") {
	case 6: // keys and strings whose encoding depends on HTMLUnsafe
		v, name = map[string]any{"a&b": []any{"<x>", map[string]any{"<k>": "R&D"}}, "plain": 1, "x<y": true}, "htmlmap"
	case 7: // two struct types that refer to each other: the directory first
		dir := &zDir{Name: "dir"}
		for i := 0; i <= d(3, "files"); i++ {
			dir.Files = append(dir.Files, &zFile{Name: fmt.Sprintf("f%d", i), Size: i})
		}
		v, name = dir, "&zDir"
	case 8: // ... or a file that points back at its (file-less) directory
		v, name = &zFile{Name: "file", Size: d(50, "size"), Parent: &zDir{Name: "up"}}, "&zFile"
	case 0:
		v, name = map[string]any{"k": []any{1, "two", 3.5, nil, true}, "m": map[string]any{"x": "y"}}, "map"
	case 1:
		v, name = mk(), "zInner"
	case 2:
		o := &zOuter{A: d(3, "za"), In: mk(), B: d(2, "zb") == 1, Tg: []string{"", "t"}[d(2, "ztg")], L: []zInner{mk()}}
		if d(2, "zptr") == 1 {
			p := mk()
			o.Ptr = &p
		}
		v, name = o, "&zOuter"
	case 3:
		v, name = zWrap{Name: "w", Inner: mk(), Outer: &zOuter{In: mk()}}, "zWrap"
	case 4:
		v, name = []any{mk(), map[string]any{"k": mk()}, "s"}, "[zInner,{k:zInner},s]"
	default:
		v, name = za.Node{ID: int64(d(5, "id")), In: za.Inner{N: 1, S: "s"}, Kids: []za.Node{{ID: 2}}, Attrs: map[string]za.Inner{"k": {N: 3}}, T: "t", F64: 1.5}, "za.Node"
	}
	return v, " " + name + "<" + strings.Join(sig, ",") + ">"
}

// theme08 is the swarm configuration of one case: the operations and option sets its tasks draw from.
// Many short runs that each concentrate on a few operations beat uniform draws from the whole menu: two
// tasks must meet in the same operation (or the same option set) for most shared state to be touched twice.
type theme08 struct {
	fns  []string
	opts []int
	bs   []int // the few shared objects (paths, scripts) the tasks of this case concentrate on
}

func drawTheme08(t *rapid.T) *theme08 {
	th := &theme08{}
	if sim.Intn(t, 5, "uniform") == 4 {
		th.fns = c08Menu
	} else {
		n := 1 + sim.Intn(t, 5, "nfns")
		for i := 0; i < n; i++ {
			th.fns = append(th.fns, c08Menu[sim.Intn(t, len(c08Menu), "themefn")])
		}
	}
	n := 1 + sim.Intn(t, 3, "nopts")
	for i := 0; i < n; i++ {
		th.opts = append(th.opts, sim.Intn(t, len(c08Opts), "themeopt"))
	}
	n = 1 + sim.Intn(t, 3, "nbs")
	for i := 0; i < n; i++ {
		th.bs = append(th.bs, sim.Intn(t, 64, "themeb"))
	}
	return th
}

func drawOp08(t *rapid.T, th *theme08) *op08 {
	o := &op08{Fn: th.fns[sim.Intn(t, len(th.fns), "fn")], O: th.opts[sim.Intn(t, len(th.opts), "opt")], A: sim.Intn(t, 16, "a")}
	if sim.Intn(t, 4, "anyb") == 3 {
		o.B = sim.Intn(t, 64, "b")
	} else {
		o.B = th.bs[sim.Intn(t, len(th.bs), "b")]
	}
	switch {
	case o.Fn == "oj.Marshal(unencodable)":
		o.Val = make(chan int)
	case strings.Contains(o.Fn, "failing") || strings.Contains(o.Fn, "panicking") || strings.Contains(o.Fn, "reader error") || strings.Contains(o.Fn, "callback") || strings.Contains(o.Fn, "empty") || strings.Contains(o.Fn, "big") || strings.Contains(o.Fn, "invalid") || strings.Contains(o.Fn, "ints") || o.Fn == "alt.GenAlter(struct)" || o.Fn == "alt.Alter(struct)" || strings.Contains(o.Fn, "keeper") || strings.HasSuffix(o.Fn, "(struct)") && strings.HasPrefix(o.Fn, "jp.") || strings.HasPrefix(o.Fn, "alt.Recompose(") || strings.HasPrefix(o.Fn, "Recomposer.") || strings.HasSuffix(o.Fn, "(many types)") || strings.HasPrefix(o.Fn, "jp.Parse") || strings.Contains(o.Fn, "Must") || o.Fn == "oj.ParseString(invalid)" || o.Fn == "sen.Write(failing writer, big)" || strings.HasSuffix(o.Fn, "One") || strings.HasPrefix(o.Fn, "jp.Must") || strings.HasSuffix(o.Fn, "(gen)") || o.Fn == "jp.FirstFound" || o.Fn == "jp.BracketString+Normal" || strings.HasSuffix(o.Fn, "(two spellings)"):
	case strings.HasPrefix(o.Fn, "oj.JSON"), strings.HasPrefix(o.Fn, "oj.Marshal"), strings.HasPrefix(o.Fn, "oj.Write"), strings.HasPrefix(o.Fn, "sen.String"), o.Fn == "sen.Bytes", o.Fn == "sen.Write", strings.HasPrefix(o.Fn, "pretty."), o.Fn == "alt.Decompose", o.Fn == "alt.Generify(struct)":
		// (pretty.WriteJSON included)
		o.Val, o.Desc = drawVal08(t)
		// package-level calls without options write maps in Go's map order: keep those order independent
		if !strings.Contains(o.Fn, "opts") && !strings.HasPrefix(o.Fn, "pretty.") && o.Fn != "alt.Decompose" && o.Fn != "alt.Generify(struct)" {
			if _, ok := o.Val.(map[string]any); ok {
				o.Val = []any{1, "two", map[string]any{"only": 3.5}}
				o.Desc = " [1,two,{only:3.5}]"
			}
		}
	}
	return o
}

type ret08 struct {
	canon    string
	retained []any // values to re-inspect later (by the same task)
	snap     string
}

func doc(i int) []byte        { return append([]byte(nil), c08Docs[i%len(c08Docs)]...) }
func senDoc(i int) []byte     { return append([]byte(nil), c08SenDocs[i%len(c08SenDocs)]...) }
func opts(i int) *ojg.Options { return c08Opts[i%len(c08Opts)] }

func privateData(i int) any {
	v, err := oj.Parse(doc(i % 3))
	if err != nil {
		return nil
	}
	return v
}

// exec runs the operation on task-private data with the shared fixtures.
func (o *op08) exec() (r ret08) {
	o.handed = o.handed[:0]
	defer func() {
		if p := recover(); p != nil {
			r.canon = fmt.Sprintf("PANIC(%v)", p)
			r.retained = nil
		}
	}()
	val := func(v any, err error) {
		r.canon = canonDocs(err != nil, []any{v}) // the value is part of the result also when an error is returned
		if err == nil {
			r.retained = []any{v}
		}
	}
	text := func(b []byte, err error) {
		r.canon = canonDocs(err != nil, []any{string(b)})
		if err == nil || len(b) > 0 { // what comes back together with an error is the caller's too
			r.retained = []any{b}
		}
	}
	switch o.Fn {
	case "oj.Parse":
		val(oj.Parse(o.doc(o.A)))
	case "oj.ParseString":
		val(oj.ParseString(string(o.doc(o.A))))
	case "oj.Load":
		rd := sim.NewSimReader(o.doc(o.A), &sim.Schedule{Every: 1 + o.B%5, FailAt: -1})
		val(oj.Load(rd))
	case "oj.Validate":
		r.canon = canonDocs(oj.Validate(o.doc(o.A)) != nil, nil)
	case "oj.Tokenize":
		h := newBuilderHandler()
		err := oj.Tokenize(o.doc(o.A), h)
		r.canon = canonDocs(err != nil, h.docs)
		r.retained = h.docs
	case "oj.Match":
		var hits []string
		err := oj.Match(o.doc(o.A), func(p jp.Expr, v any) { hits = append(hits, p.String()+"="+ref.Exact(v)) }, c08Exprs[o.B%5])
		r.canon = canonDocs(err != nil, []any{strings.Join(hits, ";")})
	case "oj.Unmarshal":
		var n za.Node
		err := oj.Unmarshal(o.own(`{"ID":3,"In":{"N":1,"S":"s"},"Kids":[{"ID":4}],"Attrs":{"k":{"N":2}},"t":"x","F64":1.5}`), &n)
		r.canon = fmt.Sprintf("%v %s", err != nil, derefAllAny(n))
	case "sen.Unmarshal":
		var n za.Node
		err := sen.Unmarshal(o.own(`{ID:3 In:{N:1 S:s} Kids:[{ID:4}] t:x F64:1.5}`), &n)
		r.canon = fmt.Sprintf("%v %s", err != nil, derefAllAny(n))
	case "oj.JSON":
		s := oj.JSON(o.Val)
		r.canon, r.retained = s, []any{s}
	case "oj.JSON(opts)":
		s := oj.JSON(o.Val, opts(o.O))
		r.canon, r.retained = s, []any{s}
	case "oj.Marshal":
		text(oj.Marshal(o.Val))
	case "oj.Marshal(opts)":
		text(oj.Marshal(o.Val, opts(o.O)))
	case "oj.Write":
		sw := sim.NewSimWriter(-1)
		err := oj.Write(sw, o.Val)
		text(sw.Buf, err)
	case "oj.Write(opts)":
		sw := sim.NewSimWriter(-1)
		op := *opts(o.O)
		op.WriteLimit = 1 + o.B
		err := oj.Write(sw, o.Val, &op)
		text(sw.Buf, err)
	case "sen.Parse":
		val(sen.Parse(o.senDoc(o.A)))
	case "sen.ParseReader":
		rd := sim.NewSimReader(o.senDoc(o.A), &sim.Schedule{Every: 1 + o.B%5, FailAt: -1})
		val(sen.ParseReader(rd))
	case "sen.String":
		s := sen.String(o.Val)
		r.canon, r.retained = s, []any{s}
	case "sen.String(opts)":
		s := sen.String(o.Val, opts(o.O))
		r.canon, r.retained = s, []any{s}
	case "sen.Bytes":
		b := sen.Bytes(o.Val)
		r.canon, r.retained = string(b), []any{b}
	case "sen.Write":
		sw := sim.NewSimWriter(-1)
		err := sen.Write(sw, o.Val)
		text(sw.Buf, err)
	case "pretty.JSON":
		s := pretty.JSON(o.Val, float64(20+o.A*5)+0.3, o.B%2 == 0, opts(o.O))
		r.canon, r.retained = s, []any{s}
	case "pretty.SEN":
		s := pretty.SEN(o.Val, float64(20+o.A*5)+0.3, o.B%2 == 0, opts(o.O))
		r.canon, r.retained = s, []any{s}
	case "alt.Decompose":
		d := alt.Decompose(o.Val, opts(o.O))
		r.canon, r.retained = ref.Exact(d), []any{d}
	case "alt.Generify":
		g := alt.Generify(privateData(o.A))
		r.canon = ref.Exact(nodeAny(g))
	case "alt.Recompose":
		var n za.Node
		_, err := alt.Recompose(map[string]any{"ID": 3, "In": map[string]any{"N": 1, "S": "s"}, "Kids": []any{map[string]any{"ID": 4}}, "t": "x"}, &n)
		r.canon = fmt.Sprintf("%v %s", err != nil, derefAllAny(n))
	case "alt.Recompose(embedded)":
		var e za.EmbedsDeep
		_, err := alt.Recompose(map[string]any{"Z": 1, "WIn": map[string]any{"Left": map[string]any{"X": 1.5, "Name": "n"}, "M": map[string]any{"k": map[string]any{"N": 2}}}, "WList": []any{map[string]any{"A": 1, "B": "b"}}}, &e)
		r.canon = fmt.Sprintf("%v %s", err != nil, derefAll(reflect.ValueOf(e)))
	case "oj.Unmarshal(embedded)":
		var e za.EmbedsDeep
		err := oj.Unmarshal(o.own(`{"Z":1,"WIn":{"Left":{"X":1.5,"Name":"n"},"Right":{"X":2},"M":{"k":{"N":2}}},"WList":[{"A":1,"B":"b","L":[1,2]}]}`), &e)
		r.canon = fmt.Sprintf("%v %s", err != nil, derefAll(reflect.ValueOf(e)))
	case "gen.Parser":
		p := gen.Parser{}
		n, err := p.Parse(o.doc(o.A))
		r.canon = canonDocs(err != nil, []any{nodeAny(n)})
	case "jp.Get":
		res := c08Exprs[o.B%len(c08Exprs)].Get(privateData(o.A))
		r.canon = exactSorted(res)
	case "jp.First":
		x := c08Exprs[o.B%len(c08Exprs)]
		r.canon = fmt.Sprint(x.Has(privateData(o.A)))
		if !strings.Contains(x.String(), "*") && !strings.Contains(x.String(), "..") && !strings.Contains(x.String(), "?") && !strings.Contains(x.String(), ",") {
			r.canon += ref.Exact(x.First(privateData(o.A)))
		}
	case "jp.Has":
		r.canon = fmt.Sprint(c08Exprs[o.B%len(c08Exprs)].Has(privateData(o.A)))
	case "jp.Locate":
		locs := c08Exprs[o.B%len(c08Exprs)].Locate(privateData(o.A), 0)
		var ss []string
		for _, l := range locs {
			ss = append(ss, l.String())
		}
		sort.Strings(ss)
		r.canon = strings.Join(ss, ";")
	case "jp.Walk":
		var ss []string
		c08Exprs[o.B%len(c08Exprs)].Walk(privateData(o.A), func(p jp.Expr, nodes []any) { ss = append(ss, p.String()) })
		sort.Strings(ss)
		r.canon = strings.Join(ss, ";")
	case "jp.Set":
		d := privateData(o.A)
		err := c08Exprs[o.B%6].Set(d, "new")
		r.canon = fmt.Sprint(err != nil) + ref.Exact(d)
	case "jp.Del":
		d := privateData(o.A)
		err := c08Exprs[o.B%len(c08Exprs)].Del(d)
		r.canon = fmt.Sprint(err != nil) + ref.Exact(d)
	case "jp.Modify":
		d := privateData(o.A)
		out, err := c08Exprs[o.B%len(c08Exprs)].Modify(d, func(e any) (any, bool) { return "mod", true })
		r.canon = fmt.Sprint(err != nil) + ref.Exact(out)
	case "jp.Remove":
		d := privateData(o.A)
		out, err := c08Exprs[o.B%len(c08Exprs)].Remove(d)
		r.canon = fmt.Sprint(err != nil) + ref.Exact(out)
	case "Script.Match":
		s := c08Scripts[o.B%len(c08Scripts)]
		r.canon = fmt.Sprint(s.Match(map[string]any{"d": int64(o.A % 4), "x": []string{"y", "z", "q"}[o.A%3], "s": []string{"str", "stir", "x"}[o.A%3], "arr": []any{1, 2}}), s.Match(int64(o.A%4)))
	case "oj.ValidateReader":
		rd := sim.NewSimReader(o.doc(o.A), &sim.Schedule{Every: 1 + o.B%5, FailAt: -1})
		r.canon = canonDocs(oj.ValidateReader(rd) != nil, nil)
	case "oj.TokenizeLoad":
		h := newBuilderHandler()
		rd := sim.NewSimReader(o.doc(o.A), &sim.Schedule{Every: 1 + o.B%5, FailAt: -1})
		err := oj.TokenizeLoad(rd, h)
		r.canon = canonDocs(err != nil, h.docs)
	case "oj.MatchLoad":
		var hits []string
		rd := sim.NewSimReader(o.doc(o.A), &sim.Schedule{Every: 1 + o.B%5, FailAt: -1})
		err := oj.MatchLoad(rd, func(p jp.Expr, v any) { hits = append(hits, p.String()+"="+ref.Exact(v)) }, c08Exprs[o.B%5])
		r.canon = canonDocs(err != nil, []any{strings.Join(hits, ";")})
	case "sen.Tokenize":
		h := newBuilderHandler()
		err := sen.Tokenize(o.senDoc(o.A), h)
		r.canon = canonDocs(err != nil, h.docs)
	case "sen.Match":
		var hits []string
		err := sen.Match(o.senDoc(o.A), func(p jp.Expr, v any) { hits = append(hits, p.String()+"="+ref.Exact(v)) }, c08Exprs[o.B%5])
		r.canon = canonDocs(err != nil, []any{strings.Join(hits, ";")})
	case "sen.MatchLoad":
		var hits []string
		rd := sim.NewSimReader(o.senDoc(o.A), &sim.Schedule{Every: 1 + o.B%5, FailAt: -1})
		err := sen.MatchLoad(rd, func(p jp.Expr, v any) { hits = append(hits, p.String()+"="+ref.Exact(v)) }, c08Exprs[o.B%5])
		r.canon = canonDocs(err != nil, []any{strings.Join(hits, ";")})
	case "pretty.WriteJSON":
		sw := sim.NewSimWriter(-1)
		op := *opts(o.O)
		op.WriteLimit = 1 + o.B
		err := pretty.WriteJSON(sw, o.Val, float64(20+o.A*5)+0.3, o.B%2 == 0, &op)
		text(sw.Buf, err)
	case "oj.MustParse":
		r.canon = ref.Exact(oj.MustParse(o.doc(o.A % 5)))
	case "sen.MustParse":
		r.canon = ref.Exact(sen.MustParse(o.senDoc(o.A % 2)))
	case "alt.Alter":
		r.canon = ref.Exact(alt.Alter(privateData(o.A)))
	case "alt.Dup":
		r.canon = ref.Exact(alt.Dup(privateData(o.A)))
	case "jp.String":
		x := c08Exprs[o.B%len(c08Exprs)]
		r.canon = x.String() + " " + x.BracketString() + " " + c08Scripts[o.A%len(c08Scripts)].String()
	case "oj.Marshal(unencodable)":
		text(oj.Marshal([]any{true, "x", o.Val}))
	case "oj.Marshal(failing Marshaler)":
		text(oj.Marshal([]any{1, failingMarshaler{o.A}, "after"}))
	case "oj.Marshal(failing TextMarshaler)":
		text(oj.Marshal(map[string]any{"k": failingTextMarshaler{o.A}}))
	case "oj.JSON(panicking Simplifier)":
		s := oj.JSON([]any{"before", &boom{Armed: true, V: 1}, 2})
		r.canon = s
	case "sen.String(panicking Simplifier)":
		s := sen.String([]any{"before", &boom{Armed: true, V: 1}, 2})
		r.canon = s
	case "oj.Write(failing writer)":
		sw := sim.NewSimWriter(o.B % 2)
		op := ojg.Options{WriteLimit: 4, Sort: true}
		err := oj.Write(sw, []any{1, "two", []any{3, 4, 5}, "six"}, &op)
		r.canon = fmt.Sprint(err != nil)
		if o.B%3 == 0 {
			sw2 := sim.NewSimWriter(0)
			r.canon += fmt.Sprint(oj.Write(sw2, []any{1, "two"}) != nil)
		}
	case "sen.Write(failing writer)":
		sw := sim.NewSimWriter(0)
		r.canon = fmt.Sprint(sen.Write(sw, []any{1, "two", []any{3, 4, 5}}) != nil)
	case "oj.Load(reader error)":
		// the error may come anywhere, also after a complete value has been read (B == 15: at the very end)
		d := o.doc(o.A)
		rd := sim.NewSimReader(d, &sim.Schedule{Every: 3, FailAt: (o.B * (len(d) + 1)) / 15 % (len(d) + 1)})
		v, err := oj.Load(rd)
		r.canon = fmt.Sprint(err != nil) + ref.Exact(v)
	case "sen.ParseReader(reader error)":
		d := o.senDoc(o.A)
		rd := sim.NewSimReader(d, &sim.Schedule{Every: 3, FailAt: (o.B * (len(d) + 1)) / 15 % (len(d) + 1)})
		v, err := sen.ParseReader(rd)
		r.canon = fmt.Sprint(err != nil) + ref.Exact(v)
	case "oj.Parse(callback)":
		var docs []any
		v, err := oj.Parse(o.own(`1 [2] {"a":3} 4`), func(x any) bool { docs = append(docs, x); return false })
		r.canon = canonDocs(err != nil, append(docs, v))
	case "sen.Parse(callback)":
		var docs []any
		v, err := sen.Parse(o.own(`1 [2] {a:3} 4`), func(x any) bool { docs = append(docs, x); return false })
		r.canon = canonDocs(err != nil, append(docs, v))
	case "oj.Parse(empty)":
		v, err := oj.Parse(o.own([]string{"", "  \n", "[1,"}[o.B%3]))
		r.canon = canonDocs(err != nil, []any{v})
	case "sen.Unmarshal(keeper)":
		var k keeper
		err := sen.Unmarshal(o.own(fmt.Sprintf(`{n:%d props:{owner:%d seq:%d deep:{a:[1 2]}}}`, o.A, o.A, o.B)), &k, c08Keeper)
		r.canon = fmt.Sprint(err != nil, k.N) + ref.Exact(k.Props)
		r.retained = []any{k.Props}
	case "oj.Unmarshal(keeper)":
		var k keeper
		err := oj.Unmarshal(o.own(fmt.Sprintf(`{"n":%d,"props":{"owner":%d,"seq":%d,"deep":{"a":[1,2]}}}`, o.A, o.A, o.B)), &k, c08Keeper)
		r.canon = fmt.Sprint(err != nil, k.N) + ref.Exact(k.Props)
		r.retained = []any{k.Props}
	case "jp.Get(struct)":
		r.canon = goSorted(c08StructExprs[o.B%len(c08StructExprs)].Get(structData(o.A, o.B)))
	case "jp.First(struct)":
		r.canon = goSorted([]any{c08StructExprs[o.B%len(c08StructExprs)].First(structData(o.A, o.B))})
	case "jp.Has(struct)":
		r.canon = fmt.Sprint(c08StructExprs[o.B%len(c08StructExprs)].Has(structData(o.A, o.B)))
	case "jp.Set(struct)":
		d := structData(o.A, o.B)
		err := c08StructExprs[o.B%6].Set(d, "new")
		r.canon = fmt.Sprintf("%v %s", err != nil, derefAll(reflect.ValueOf(d)))
	case "jp.Walk(struct)":
		var ss []string
		c08StructExprs[o.B%len(c08StructExprs)].Walk(structData(o.A, o.B), func(p jp.Expr, nodes []any) { ss = append(ss, p.String()) })
		sort.Strings(ss)
		r.canon = strings.Join(ss, ";")
	case "jp.Locate(struct)":
		locs := c08StructExprs[o.B%len(c08StructExprs)].Locate(structData(o.A, o.B), 0)
		ss := make([]string, len(locs))
		for i, l := range locs {
			ss[i] = l.String()
		}
		sort.Strings(ss)
		r.canon = strings.Join(ss, ";")
	case "jp.Modify(struct)":
		d := structData(o.A, o.B)
		_, err := c08StructExprs[o.B%len(c08StructExprs)].Modify(d, func(e any) (any, bool) { return e, false })
		r.canon = fmt.Sprintf("%v %s", err != nil, derefAll(reflect.ValueOf(d)))
	case "alt.Recompose(typed maps)":
		var tt typedTarget
		_, err := alt.Recompose(typedSource(o.A, o.B), &tt)
		r.canon = fmt.Sprintf("%v %s", err != nil, derefAll(reflect.ValueOf(tt)))
	case "Recomposer.Recompose(typed maps)":
		var tt typedTarget
		_, err := c08Typed.Recompose(typedSource(o.A, o.B), &tt)
		r.canon = fmt.Sprintf("%v %s", err != nil, derefAll(reflect.ValueOf(tt)))
	case "alt.Recompose(gen)":
		var tt typedTarget
		src := gen.Object{"Labels": gen.Object{fmt.Sprintf("g%d", o.A): gen.String(fmt.Sprintf("v%d", o.B)), "z": gen.String("z")}, "Nums": gen.Array{gen.Int(int64(o.A)), gen.Int(int64(o.B))},
			"In": gen.Object{"S": gen.String("s"), "N": gen.Int(int64(o.B))}, "Limits": gen.Object{"a": gen.Int(int64(o.A)), fmt.Sprintf("b%d", o.B): gen.Int(2)}}
		_, err := alt.Recompose(src, &tt)
		r.canon = fmt.Sprintf("%v %s", err != nil, derefAll(reflect.ValueOf(tt)))
	case "alt.Recompose(slices)":
		var out []map[string]int
		src := []any{map[string]int{"a": o.A, "b": o.B}, map[string]any{"c": o.A + o.B}, map[string]int{fmt.Sprintf("k%d", o.B): 1}}
		_, err := alt.Recompose(src, &out)
		r.canon = fmt.Sprintf("%v %v", err != nil, derefAll(reflect.ValueOf(out)))
	case "sen.MustParseReader", "sen.MustParseReader(invalid or reader error)", "oj.MustLoad", "oj.MustLoad(invalid or reader error)", "oj.MustParse(invalid)", "sen.MustParse(invalid)", "oj.MustParseString", "oj.ParseString(invalid)":
		var v any
		var err error
		func() {
			defer func() {
				if p := recover(); p != nil {
					err = fmt.Errorf("%v", p) // the Must* variants report through a panic
				}
			}()
			failing := strings.Contains(o.Fn, "invalid")
			switch {
			case strings.HasPrefix(o.Fn, "sen.MustParseReader"):
				d := o.senDoc(o.A % 2)
				sch := &sim.Schedule{Every: 3, FailAt: -1}
				if failing {
					if o.B%2 == 0 {
						d = o.senDoc(2) // truncated
					} else {
						sch.FailAt = (o.B * (len(d) + 1)) / 63 % (len(d) + 1)
					}
				}
				v = sen.MustParseReader(sim.NewSimReader(d, sch))
			case strings.HasPrefix(o.Fn, "oj.MustLoad"):
				d := o.doc(o.A % 3)
				sch := &sim.Schedule{Every: 3, FailAt: -1}
				if failing {
					if o.B%2 == 0 {
						d = o.doc(5 + o.A%2) // truncated
					} else {
						sch.FailAt = (o.B * (len(d) + 1)) / 63 % (len(d) + 1)
					}
				}
				v = oj.MustLoad(sim.NewSimReader(d, sch))
			case o.Fn == "oj.MustParse(invalid)":
				v = oj.MustParse(o.doc(5 + o.A%2))
			case o.Fn == "sen.MustParse(invalid)":
				v = sen.MustParse(o.senDoc(2))
			case o.Fn == "oj.MustParseString":
				v = oj.MustParseString(string(o.doc(o.A % 3)))
			default:
				v, err = oj.ParseString(string(o.doc(5 + o.A%2)))
			}
		}()
		r.canon = fmt.Sprint(err != nil) + ref.Exact(v)
		if err == nil {
			r.retained = []any{v}
		}
	case "sen.MustWrite(failing writer)", "sen.Write(failing writer, big)":
		sw := sim.NewSimWriter(o.B % 3)
		var err error
		func() {
			defer func() {
				if p := recover(); p != nil {
					err = fmt.Errorf("%v", p)
				}
			}()
			val := []any{strings.Repeat("y", 1100+o.A*20), o.B, "tail", strings.Repeat("z", 1100)}
			if o.Fn == "sen.MustWrite(failing writer)" {
				sen.MustWrite(sw, val)
			} else {
				err = sen.Write(sw, val)
			}
		}()
		r.canon = fmt.Sprint(err != nil, len(sw.Buf))
	case "jp.SetOne", "jp.DelOne", "jp.ModifyOne", "jp.RemoveOne", "jp.MustSet", "jp.MustDel", "jp.MustModify", "jp.MustRemove":
		d := privateData(o.A)
		x := c08Exprs[o.B%len(c08Exprs)]
		if strings.HasSuffix(o.Fn, "One") {
			x = c08OrderedExprs[o.B%len(c08OrderedExprs)]
		}
		var out any = d
		var err error
		func() {
			defer func() {
				if p := recover(); p != nil {
					err = fmt.Errorf("%v", p) // the Must* variants report through a panic
				}
			}()
			switch o.Fn {
			case "jp.SetOne":
				err = x.SetOne(d, "one")
			case "jp.DelOne":
				err = x.DelOne(d)
			case "jp.ModifyOne":
				out, err = x.ModifyOne(d, func(e any) (any, bool) { return "mod", true })
			case "jp.RemoveOne":
				out, err = x.RemoveOne(d)
			case "jp.MustSet":
				x.MustSet(d, "must")
			case "jp.MustDel":
				x.MustDel(d)
			case "jp.MustModify":
				out = x.MustModify(d, func(e any) (any, bool) { return "mod", true })
			default:
				out = x.MustRemove(d)
			}
		}()
		r.canon = fmt.Sprintf("%v %s %s", err != nil, ref.Exact(d), ref.Exact(out))
	case "jp.FirstFound":
		v, ok := c08OrderedExprs[o.B%len(c08OrderedExprs)].FirstFound(privateData(o.A))
		r.canon = fmt.Sprint(ok) + ref.Exact(v)
	case "jp.GetNodes(gen)", "jp.FirstNode(gen)", "jp.Get(gen)", "jp.Set(gen)", "jp.Has(gen)", "jp.Locate(gen)", "jp.Remove(gen)":
		var p gen.Parser
		n, err := p.Parse(o.doc(o.A % 3))
		if err != nil {
			r.canon = "error"
			break
		}
		x := c08Exprs[o.B%len(c08Exprs)]
		switch o.Fn {
		case "jp.GetNodes(gen)":
			var ss []string
			for _, g := range x.GetNodes(n) {
				ss = append(ss, ref.Exact(nodeAny(g)))
			}
			sort.Strings(ss)
			r.canon = strings.Join(ss, ";")
		case "jp.FirstNode(gen)":
			r.canon = ref.Exact(nodeAny(c08OrderedExprs[o.B%len(c08OrderedExprs)].FirstNode(n)))
		case "jp.Get(gen)":
			r.canon = exactSorted(x.Get(n))
		case "jp.Has(gen)":
			r.canon = fmt.Sprint(x.Has(n))
		case "jp.Locate(gen)":
			locs := x.Locate(n, 0)
			ss := make([]string, len(locs))
			for i, l := range locs {
				ss[i] = l.String()
			}
			sort.Strings(ss)
			r.canon = strings.Join(ss, ";")
		case "jp.Set(gen)":
			err := c08Exprs[o.B%6].Set(n, gen.String("new"))
			r.canon = fmt.Sprintf("%v %s", err != nil, ref.Exact(nodeAny(n)))
		default:
			out, err := x.Remove(n)
			r.canon = fmt.Sprintf("%v %s", err != nil, ref.Exact(out))
		}
	case "jp.BracketString+Normal":
		x := c08Exprs[o.B%len(c08Exprs)]
		r.canon = x.BracketString() + fmt.Sprint(x.Normal()) + string(x.Append(nil, o.A%2 == 0))
	case "jp.Parse+extend":
		text := []string{"$.c.e", "$.a.b.c.d", "$.c", "$.b[1].x.y.z", "$..d.e", "$.c.e[0].x.y.z.w.v"}[o.B%6]
		x, err := jp.ParseString(text)
		if err != nil {
			r.canon = "error"
			break
		}
		y := x.Child(fmt.Sprintf("k%d", o.A))
		z := y.Nth(o.A)
		vsync.Point(vsync.KUser, 0)
		d := map[string]any{"c": map[string]any{"e": map[string]any{fmt.Sprintf("k%d", o.A): []any{0, 1, 2, 3, 4, 5, 6, 7, 8, 9, 10, 11, 12, 13, 14, 15, 16}}, fmt.Sprintf("k%d", o.A): "ck"}}
		r.canon = y.String() + " " + z.String() + " " + exactSorted(y.Get(d)) + " " + exactSorted(z.Get(d))
		r.retained = []any{exprText{y}, exprText{z}}
	case "jp.ParseString+Get":
		text := []string{"$.c.e", "$.a", "$.b[*]", "$.c.e[?(@.x == 'y')]", "$..d", "$.b[0:2]"}[o.B%6]
		x := jp.MustParseString(text)
		r.canon = x.String() + " " + exactSorted(x.Get(privateData(o.A)))
		r.retained = []any{exprText{x}}
	case "alt.Recompose(two spellings)", "Recomposer.Recompose(two spellings)":
		src := []map[string]any{
			{"name": "lower", "count": 1, "label": "l"},
			{"Name": "exact", "name": "lower", "Count": 2, "count": 3, "label": "l", "Alias": "a", "alias": "b"},
			{"Name": "exact", "Count": 2, "Alias": "a"},
			{"name": "lower", "NAME": "upper", "alias": "b"},
		}[o.A%4]
		var out spelled
		var err error
		if strings.HasPrefix(o.Fn, "Recomposer.") {
			_, err = c08Typed.Recompose(src, &out)
		} else {
			_, err = alt.Recompose(src, &out)
		}
		r.canon = fmt.Sprintf("%v %+v", err != nil, out)
	case "alt.Decompose(many types)":
		r.canon = ref.Exact(alt.Decompose(manyTypesValue(o.A, o.B), opts(o.O)))
	case "oj.JSON(many types)":
		r.canon = oj.JSON(manyTypesValue(o.A, o.B), opts(o.O))
	case "sen.String(many types)":
		r.canon = sen.String(manyTypesValue(o.A, o.B), opts(o.O))
	case "alt.Generify(many types)":
		g := alt.Generify(manyTypesValue(o.A, o.B), opts(o.O))
		r.canon = ref.Exact(nodeAny(g))
	case "alt.Generify(struct)":
		g := alt.Generify(o.Val, opts(o.O))
		r.canon = ref.Exact(nodeAny(g))
	case "alt.GenAlter(struct)": // alters in place: a private value built here, never the shared o.Val
		g := alt.GenAlter(freshMixed(o.A, o.B), opts(o.O))
		r.canon = ref.Exact(nodeAny(g))
	case "alt.Alter(struct)":
		r.canon = ref.Exact(alt.Alter(freshMixed(o.A, o.B), opts(o.O)))
	case "oj.Unmarshal(invalid)":
		var out any
		err := oj.Unmarshal(o.own([]string{`{"a":`, `[1,2`, `{"a":1}x`, `[1,2]`}[o.B%4]), &out)
		r.canon = fmt.Sprint(err != nil) + ref.Exact(out)
	case "sen.Unmarshal(invalid)":
		var out any
		err := sen.Unmarshal(o.own([]string{`{a:`, `[1 2`, `[1 2]`}[o.B%3]), &out)
		r.canon = fmt.Sprint(err != nil) + ref.Exact(out)
	case "oj.Parse(ints)":
		val(oj.Parse(o.own(`{"id":9007199254740993,"n":3,"f":1.5}`)))
	case "oj.JSON(big)": // larger than the pooled writers' default WriteLimit
		s := oj.JSON([]any{strings.Repeat("x", 1100+o.A*20), o.B})
		r.canon, r.retained = s, []any{s}
	case "sen.String(big)":
		s := sen.String([]any{strings.Repeat("x", 1100+o.A*20), o.B})
		r.canon, r.retained = s, []any{s}
	case "oj.Marshal(big)":
		text(oj.Marshal([]any{strings.Repeat("x", 1100+o.A*20), o.B}))
	case "oj.Write(pooled, failing writer)":
		sw := sim.NewSimWriter(0)
		err := oj.Write(sw, []any{strings.Repeat("y", 1100+o.A*20), o.B, "tail"})
		r.canon = fmt.Sprint(err != nil, len(sw.Calls))
		r.retained = []any{sw.Buf}
	case "oj.Write(big, failing Marshaler)":
		// the encoding fails after the text has outgrown the write limit: what the io.Writer holds when the call returns
		// is all it will ever get from this call
		sw := sim.NewSimWriter(-1)
		err := oj.Write(sw, []any{strings.Repeat("y", 1100+o.A*20), o.B, failingMarshaler{o.A}, "tail"})
		r.canon = fmt.Sprint(err != nil, len(sw.Calls))
		r.retained = []any{sw}
	case "sen.Write(big, panicking Simplifier)":
		sw := sim.NewSimWriter(-1)
		err := sen.Write(sw, []any{strings.Repeat("y", 1100+o.A*20), o.B, &boom{Armed: true, V: 1}, "tail"})
		r.canon = fmt.Sprint(err != nil, len(sw.Calls))
		r.retained = []any{sw}
	case "oj.Write(big)":
		sw := sim.NewSimWriter(-1)
		err := oj.Write(sw, []any{strings.Repeat("y", 1100+o.A*20), o.B, strings.Repeat("z", 1030), "tail"})
		r.canon = fmt.Sprint(err != nil, len(sw.Calls), string(sw.Buf))
		r.retained = []any{sw}
	case "sen.Write(big)":
		sw := sim.NewSimWriter(-1)
		err := sen.Write(sw, []any{strings.Repeat("y", 1100+o.A*20), o.B, strings.Repeat("z", 1030), "tail"})
		r.canon = fmt.Sprint(err != nil, len(sw.Calls), string(sw.Buf))
		r.retained = []any{sw}
	case "sen.Write(pooled, failing writer)":
		sw := sim.NewSimWriter(0)
		err := sen.Write(sw, []any{strings.Repeat("y", 1100+o.A*20), o.B, "tail"})
		r.canon = fmt.Sprint(err != nil, len(sw.Calls))
		r.retained = []any{sw.Buf}
	case "oj.Parse(panicking callback)":
		n := 0
		_, err := oj.Parse(o.own(`1 [2] {"a":3} 4`), func(v any) bool {
			n++
			if n == 1+o.B%3 {
				panic("verif: injected callback panic")
			}
			return false
		})
		r.canon = fmt.Sprint(err != nil)
	case "sen.Parse(panicking callback)":
		n := 0
		_, err := sen.Parse(o.own(`1 [2] {a:3} 4`), func(v any) bool {
			n++
			if n == 1+o.B%3 {
				panic("verif: injected callback panic")
			}
			return false
		})
		r.canon = fmt.Sprint(err != nil)
	case "oj.Tokenize(panicking handler)":
		h := &panickyHandler{builderHandler: newBuilderHandler(), at: o.B % 5, r: &res07{}}
		err := oj.Tokenize(o.doc(o.A), h)
		r.canon = fmt.Sprint(err != nil)
	case "Script.Eval":
		s := c08Scripts[o.B%len(c08Scripts)]
		data := []any{map[string]any{"d": int64(1)}, map[string]any{"d": int64(2), "x": "y", "arr": []any{1, 2}}, int64(2), map[string]any{"s": "str", "x": "z"}}
		r.canon = ref.Exact(s.Eval([]any{}, data))
	}
	r.snap = snapshot(r.retained)
	// the caller reuses its own input buffers once the call has returned: what it was given must not live in them
	for _, b := range o.handed {
		for i := range b {
			b[i] = 0xAA
		}
	}
	return
}

// doc / senDoc: a private copy of an input text, remembered so that exec can overwrite it after the call.
func (o *op08) doc(i int) []byte {
	b := doc(i)
	o.handed = append(o.handed, b)
	return b
}

func (o *op08) own(text string) []byte {
	b := []byte(text)
	o.handed = append(o.handed, b)
	return b
}

func (o *op08) senDoc(i int) []byte {
	b := senDoc(i)
	o.handed = append(o.handed, b)
	return b
}

// freshMixed builds a new simple tree with struct members (for the in-place operations).
func freshMixed(a, b int) any {
	in := zInner{S: []string{"", "s", "x y"}[a%3], N: b % 3, F: []float64{0, 1.5}[b%2]}
	return []any{in, map[string]any{"k": &zOuter{A: a % 4, In: in, L: []zInner{in}}}, 7, "s", []any{1, in}}
}

func exactSorted(vals []any) string {
	ss := make([]string, len(vals))
	for i, v := range vals {
		ss[i] = ref.Exact(v)
	}
	sort.Strings(ss)
	return strings.Join(ss, ";")
}

func derefAllAny(v any) string { return fmt.Sprintf("%+v", v) }

// goSorted: canonical text of arbitrary Go values (structs, typed maps), order independent.
func goSorted(vals []any) string {
	ss := make([]string, len(vals))
	for i, v := range vals {
		ss[i] = fmt.Sprintf("%T:%s", v, derefAll(reflect.ValueOf(&v).Elem()))
	}
	sort.Strings(ss)
	return strings.Join(ss, ";")
}

// warmUp registers the outer zoo types used by the workload with the default recomposer - by explicit
// registration only, no warm-up run: registering a type is documented to cover the struct types of its
// members, which is the precondition for sharing the recomposer between goroutines.
func warmUp() {
	c08Shared()
	resetDefaultRecomposer("")
	_ = alt.DefaultRecomposer.RegisterComposer(&za.Node{}, nil)
	_ = alt.DefaultRecomposer.RegisterComposer(&za.EmbedsDeep{}, nil)
	_ = alt.DefaultRecomposer.RegisterComposer(&typedTarget{}, nil)
	_ = alt.DefaultRecomposer.RegisterComposer(&spelled{}, nil)
}

// exprText lets a retained jp.Expr be re-inspected by its text (snapshot prints values with %v / ref.Exact).
type exprText struct{ x jp.Expr }

func (e exprText) String() string { return e.x.String() }

// ---- race detector as in-run monitor

var raceLogPath string

func raceLogSize() int64 {
	if raceLogPath == "" {
		if p := os.Getenv("VERIF_RACE_LOG"); p != "" {
			raceLogPath = p + "." + strconv.Itoa(os.Getpid())
		} else {
			raceLogPath = "-"
		}
	}
	if raceLogPath == "-" {
		return 0
	}
	st, err := os.Stat(raceLogPath)
	if err != nil {
		return 0
	}
	return st.Size()
}

func raceLogSince(off int64) string {
	f, err := os.Open(raceLogPath)
	if err != nil {
		return ""
	}
	defer f.Close()
	st, _ := f.Stat()
	n := st.Size() - off
	if n <= 0 {
		return ""
	}
	if n > 64<<10 {
		n = 64 << 10
	}
	buf := make([]byte, n)
	f.ReadAt(buf, off)
	return string(buf)
}

var frameRe = regexp.MustCompile(`(?m)^  (\S+)\(\)\n\s+(\S+):(\d+)`)

// raceSignature extracts, for the first report in the text, the innermost ojg (non-shim, non-harness)
// function of each of the two conflicting accesses.
func raceSignature(text string) (sig string, harnessOnly bool) {
	i := strings.Index(text, "WARNING: DATA RACE")
	if i < 0 {
		return "unparsed", false
	}
	text = text[i:]
	if j := strings.Index(text[1:], "=================="); j > 0 {
		text = text[:j]
	}
	// split into the access sections
	parts := regexp.MustCompile(`(?m)^(Write|Read|Previous write|Previous read|Previous atomic write|Previous atomic read|Atomic write|Atomic read) at `).Split(text, -1)
	var tops []string
	harnessOnly = true
	for _, p := range parts[1:] {
		if k := strings.Index(p, "\nGoroutine "); k > 0 {
			p = p[:k]
		}
		top := ""
		for _, m := range frameRe.FindAllStringSubmatch(p, -1) {
			fn, file := m[1], m[2]
			if strings.Contains(file, "/verifsync/") || strings.Contains(file, "/verif/harness/") || strings.HasPrefix(fn, "runtime.") || strings.HasPrefix(fn, "sync.") || strings.HasPrefix(fn, "internal/") {
				continue
			}
			if strings.Contains(fn, "github.com/ohler55/ojg") {
				top = strings.TrimPrefix(fn, "github.com/ohler55/ojg/")
				harnessOnly = false
				break
			}
		}
		if top == "" {
			if m := frameRe.FindStringSubmatch(p); m != nil {
				top = m[1]
			}
		}
		tops = append(tops, top)
		if len(tops) == 2 {
			break
		}
	}
	sort.Strings(tops)
	return strings.Join(tops, "~"), harnessOnly
}

var c08RefCache = map[string]string{}

type case08 struct {
	Tasks [][]*op08
}

func (c *case08) render(res *sim.SchedResult) any {
	var ts []string
	for i, ops := range c.Tasks {
		var s []string
		for _, o := range ops {
			s = append(s, o.String())
		}
		ts = append(ts, fmt.Sprintf("task %d: %s", i, strings.Join(s, " ; ")))
	}
	m := map[string]any{"tasks": ts}
	if res != nil {
		m["schedule"] = res.Trace(400)
	}
	return m
}

func propC08(cx *sim.Ctx) {
	sim.Declare([]string{"pool_get_other_tasks_instance", "pool_get_own_instance", "pool_get_new", "pool_put_dropped", "lock_wait", "task_switches", "race_reports"}, []string{})
	t := cx.T
	c08Fixtures()
	c := &case08{}
	th := drawTheme08(t)
	n := 2 + sim.Intn(t, 4, "ntasks")
	for i := 0; i < n; i++ {
		ops := rapid.SliceOfN(rapid.Custom(func(t *rapid.T) *op08 { return drawOp08(t, th) }), 1, 5).Draw(t, "ops")
		c.Tasks = append(c.Tasks, ops)
	}
	var sres *sim.SchedResult
	cx.Render(func() any { return c.render(sres) })
	for i, ops := range c.Tasks {
		for _, o := range ops {
			cx.Key(i, o.String())
		}
	}

	// sequential reference pass: every operation alone in a restarted world
	vsync.SetSeqDecider(nil)
	want := make([][]string, n)
	for i, ops := range c.Tasks {
		want[i] = make([]string, len(ops))
		for j, o := range ops {
			// "alone in a restarted world" is a function of the operation only: memoised
			key := o.String()
			if w, ok := c08RefCache[key]; ok {
				want[i][j] = w
				continue
			}
			vsync.Restart()
			warmUp()
			want[i][j] = o.exec().canon
			cx.Exec()
			if len(c08RefCache) < 200000 {
				c08RefCache[key] = want[i][j]
			}
		}
	}
	cx.BaselineDone()

	// scheduled pass
	vsync.Restart()
	warmUp()
	got := make([][]string, n)
	unstable := make([]string, n)
	bodies := make([]func(), n)
	for i := range c.Tasks {
		i := i
		ops := c.Tasks[i]
		got[i] = make([]string, len(ops))
		bodies[i] = func() {
			var kept []ret08
			for j, o := range ops {
				vsync.Point(vsync.KOp, int32(j))
				r := o.exec()
				got[i][j] = r.canon
				// values returned to this task earlier must not have been written by anybody since
				for k, old := range kept {
					if s := snapshot(old.retained); s != old.snap && unstable[i] == "" {
						unstable[i] = fmt.Sprintf("value returned to task %d by its op %d (%s) changed by the time its op %d (%s) returned: was %s, now %s", i, k, ops[k], j, o, clip(old.snap), clip(s))
					}
				}
				kept = append(kept, r)
			}
			vsync.Point(vsync.KOp, int32(len(ops)))
			for k, old := range kept {
				if s := snapshot(old.retained); s != old.snap && unstable[i] == "" {
					unstable[i] = fmt.Sprintf("value returned to task %d by its op %d (%s) changed before the task ended: was %s, now %s", i, k, ops[k], clip(old.snap), clip(s))
				}
			}
		}
	}
	before := raceLogSize()
	sres = sim.RunScheduled(cx, bodies)
	cx.Exec()
	cx.Steps(len(sres.Events))
	cx.Key(sres.Hash())
	sim.ProbeN("pool_get_other_tasks_instance", sres.CrossGet)
	sim.ProbeN("pool_get_own_instance", sres.SameTaskGet)
	sim.ProbeN("pool_get_new", sres.NewGet)
	sim.ProbeN("pool_put_dropped", sres.Drops)
	sim.ProbeN("lock_wait", sres.LockWaits)
	sim.ProbeN("task_switches", sres.Switches)
	if sim.EventLogging() {
		cx.Event("sched %016x %s", sres.Hash(), strings.Join(sres.Trace(100000), " "))
		for i := range got {
			cx.Event("results t%d %x", i, fnvStrings(got[i]))
		}
	}
	if cx.Pending() {
		return // finishing on default decisions after an aborted draw: not judged
	}
	if after := raceLogSize(); after > before {
		text := raceLogSince(before)
		sig, harnessOnly := raceSignature(text)
		if harnessOnly {
			panic("harness: race report with no ojg frame (harness bug, not a verdict):\n" + text)
		}
		sim.Probe("race_reports")
		cx.Fail("C08/race/"+sig, clipN(text, 6000), map[string]any{"signature": sig})
	}
	for i := range c.Tasks {
		for j := range c.Tasks[i] {
			if got[i][j] != want[i][j] {
				cx.Fail("C08/isolation/"+c.Tasks[i][j].Fn, fmt.Sprintf("task %d op %d %s: concurrent result %s ; alone %s", i, j, c.Tasks[i][j], clip(got[i][j]), clip(want[i][j])), map[string]any{"fn": c.Tasks[i][j].Fn})
			}
		}
		if unstable[i] != "" {
			cx.Fail("C08/returned-value-altered", unstable[i], nil)
		}
	}
	if sres.CrossGet > 0 || sres.LockWaits > 0 {
		cx.NonTrivial()
	}
}

func clipN(s string, n int) string {
	if len(s) > n {
		return s[:n] + "…"
	}
	return s
}

func fnvStrings(ss []string) uint64 {
	h := uint64(14695981039346656037)
	for _, s := range ss {
		for i := 0; i < len(s); i++ {
			h ^= uint64(s[i])
			h *= 1099511628211
		}
		h ^= 0xff
		h *= 1099511628211
	}
	return h
}

func TestC08(t *testing.T) { sim.Main(t, "C08", propC08) }
