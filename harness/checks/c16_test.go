package checks

import (
	"encoding/json"
	"fmt"
	"math"
	"reflect"
	"strings"
	"testing"
	"time"
	xv1 "verif/harness/gens/zoo/x/v1"
	yv1 "verif/harness/gens/zoo/y/v1"

	"pgregory.net/rapid"

	"github.com/ohler55/ojg"
	"github.com/ohler55/ojg/alt"
	"github.com/ohler55/ojg/oj"
	"github.com/ohler55/ojg/sen"
	vsync "github.com/ohler55/ojg/verifsync"

	za "verif/harness/gens/zoo/a"
	zb "verif/harness/gens/zoo/b"
	"verif/harness/sim"
)

// C16 — Decompose/Recompose and Marshal/Unmarshal are inverse on user types, and the outcome for
// one target type never depends on which other types the process has recomposed before.
//
// Simulated dimension: the history of target types presented to the process-wide
// alt.DefaultRecomposer (a lazily filled registry), including explicit registrations, failing
// recompositions and process restart. Oracle baseline (stated as such): the inverse law itself on
// a finite type zoo plus reflect.StructOf types.

type anon1 = struct {
	X int
	Y []string
}
type anon2 = struct {
	X string
	Z float64
}
type anon3 = struct {
	X  float64
	In za.Inner
	P  *zb.Inner
}

var zooTypes = []reflect.Type{
	reflect.TypeOf(za.Inner{}), reflect.TypeOf(zb.Inner{}), reflect.TypeOf(za.Item{}), reflect.TypeOf(zb.Item{}),
	reflect.TypeOf(za.Extra{}), reflect.TypeOf(zb.Extra{}), reflect.TypeOf(za.Node{}), reflect.TypeOf(zb.Node{}),
	reflect.TypeOf(za.Pair{}), reflect.TypeOf(zb.Pair{}), reflect.TypeOf(za.Embeds{}), reflect.TypeOf(za.Uniq{}),
	reflect.TypeOf(anon1{}), reflect.TypeOf(anon2{}), reflect.TypeOf(anon3{}), reflect.TypeOf(za.Deep{}), reflect.TypeOf(za.EmbedsDeep{}),
	reflect.TypeOf(za.Overlap{}), reflect.TypeOf(za.OverlapEmb{}), reflect.TypeOf(za.Times{}),
	reflect.TypeOf(xv1.Entry{}), reflect.TypeOf(yv1.Invoice{}), reflect.TypeOf(xv1.Entry{}), reflect.TypeOf(yv1.Invoice{}),
	reflect.TypeOf(za.EmbTag{}), reflect.TypeOf(za.EmbTag{}),
	reflect.TypeOf(za.Holder{}), reflect.TypeOf(za.Holder{}),
	reflect.TypeOf(za.EmbScalar{}), reflect.TypeOf(za.EmbScalarPtr{}),
}

var structOfFieldTypes = []reflect.Type{
	reflect.TypeOf(0), reflect.TypeOf(""), reflect.TypeOf(1.5), reflect.TypeOf(true), reflect.TypeOf([]int(nil)), reflect.TypeOf([]string(nil)),
	reflect.TypeOf(za.Inner{}), reflect.TypeOf(zb.Inner{}), reflect.TypeOf(&za.Item{}), reflect.TypeOf(zb.Item{}), reflect.TypeOf(map[string]int(nil)), reflect.TypeOf(int64(0)),
	reflect.TypeOf(map[string]za.Inner(nil)), reflect.TypeOf([]zb.Inner(nil)), reflect.TypeOf([2]za.Inner{}), reflect.TypeOf(map[string][]int(nil)), reflect.TypeOf(float32(0)), reflect.TypeOf(uint16(0)),
	reflect.TypeOf(int8(0)), reflect.TypeOf(int16(0)), reflect.TypeOf(int32(0)), reflect.TypeOf(uint32(0)), reflect.TypeOf(uint(0)), reflect.TypeOf([]float32(nil)), reflect.TypeOf([]*za.Inner(nil)), reflect.TypeOf(map[string]*zb.Item(nil)), reflect.TypeOf([]any(nil)), reflect.TypeOf((*any)(nil)).Elem(),
	reflect.TypeOf(uint64(0)), reflect.TypeOf([]uint64(nil)), reflect.TypeOf(map[string]uint64(nil)), reflect.TypeOf([2]uint64{}), reflect.TypeOf([]uint(nil)), reflect.TypeOf((*uint64)(nil)),
	reflect.TypeOf([2]any{}), reflect.TypeOf([][2]any(nil)), reflect.TypeOf(map[string]any(nil)), reflect.TypeOf((*[2]any)(nil)), reflect.TypeOf([]map[string]any(nil)), reflect.TypeOf([1][]any{}),
	reflect.TypeOf([]int8(nil)), reflect.TypeOf([]uint16(nil)), reflect.TypeOf(map[string]int32(nil)), reflect.TypeOf([]int64(nil)), reflect.TypeOf(map[string]float32(nil)), reflect.TypeOf([]bool(nil)),
}

// drawStructOf builds an anonymous struct type with a seeded field list (the only way to quantify
// over struct types at run time; Go cannot mint named types dynamically).
func drawStructOf(t *rapid.T) reflect.Type {
	n := 1 + sim.Intn(t, 4, "nfields")
	var fs []reflect.StructField
	for i := 0; i < n; i++ {
		f := reflect.StructField{
			Name: []string{"X", "Y", "Z", "In", "Name", "N"}[i] + []string{"", "a", "b"}[sim.Intn(t, 3, "suffix")],
			Type: structOfFieldTypes[sim.Intn(t, len(structOfFieldTypes), "ftype")],
		}
		// json tags (names from a pool that cannot collide with any field name)
		switch sim.Weighted(t, "tag", 6, 1, 1, 1, 1, 1, 1, 1) {
		case 5, 6, 7:
			// the ",string" option (numbers and booleans written as quoted text), alone and combined
			switch f.Type.Kind() {
			case reflect.Int, reflect.Int8, reflect.Int16, reflect.Int32, reflect.Int64, reflect.Uint16, reflect.Uint32, reflect.Uint, reflect.Uint64, reflect.Float32, reflect.Float64, reflect.Bool:
				f.Tag = reflect.StructTag([]string{`json:",string"`, `json:",omitempty,string"`, fmt.Sprintf(`json:"s%d,string"`, i), `json:",string,omitempty"`, fmt.Sprintf(`json:"s%d,string,omitempty"`, i)}[sim.Intn(t, 5, "stringtag")])
			}
		case 1:
			f.Tag = reflect.StructTag(fmt.Sprintf(`json:"t%d"`, i))
		case 2:
			f.Tag = `json:",omitempty"`
		case 3:
			f.Tag = `json:"-"`
		case 4:
			f.Tag = reflect.StructTag(fmt.Sprintf(`json:"Tag%d,omitempty"`, i))
		}
		fs = append(fs, f)
	}
	// distinct names
	seen := map[string]bool{}
	var out []reflect.StructField
	for _, f := range fs {
		if !seen[strings.ToLower(f.Name)] {
			seen[strings.ToLower(f.Name)] = true
			out = append(out, f)
		}
	}
	return reflect.StructOf(out)
}

var c16Strings = []string{"", "a", "x y", "é", "a\"b", "line\nbreak", "123", "true", "null", "-", "{}", "日本"}
var c16Floats = []float64{0, 1.5, -2.25, 0.1, 1e21, 1e-7, 123456789.125, 3, -7, 0.30000000000000004,
	math.Pi, 1234.56789, 16777217, 1e39, 1e-50, -1.7976931348623157e308, 4.9e-324, 0.1234567890123456, 100000000.5}

func usesInterface(rt reflect.Type, depth int) bool {
	if depth > 4 {
		return false
	}
	switch rt.Kind() {
	case reflect.Interface:
		return true
	case reflect.Ptr, reflect.Slice, reflect.Array, reflect.Map:
		return usesInterface(rt.Elem(), depth+1)
	case reflect.Struct:
		for i := 0; i < rt.NumField(); i++ {
			if usesInterface(rt.Field(i).Type, depth+1) {
				return true
			}
		}
	}
	return false
}

// bigIntMode selects, per operation, which 64-bit integers beyond +-2^53 are drawn: 0 none, 1 the
// range that oj.Unmarshal is known to lose (it parses with ForceFloat), 2 the values at the very ends of
// the int64 range, which take the parser's big-number path and do survive.
var bigIntMode int

var timeType = reflect.TypeOf(time.Time{})

// unmarshalerConfig selects, per case, how the recomposers are set up: true = as package oj's init leaves the
// default recomposer (the json.Unmarshaler composer registered: members whose pointer type implements
// json.Unmarshaler decode themselves from the JSON of their decomposition); false = a user's own set-up with an
// any-composer for time.Time and no unmarshaler composer. The two cannot be combined for time values: the
// unmarshaler composer takes precedence and time.Time's UnmarshalJSON reads RFC 3339 text only.
var unmarshalerConfig bool

func configureRecomposer(r *alt.Recomposer) {
	if unmarshalerConfig {
		r.RegisterUnmarshalerComposer(func(v any) (any, error) { return []byte(oj.JSON(v)), nil })
		return
	}
	_ = r.RegisterAnyComposer(time.Time{}, composeTime)
}

// composeTime is the any-composer a user registers for time.Time (the documented way to get times back): it
// takes what the encoders write under the options used here - nanoseconds since the epoch or an RFC 3339 text.
func composeTime(v any) (any, error) {
	switch tv := v.(type) {
	case int64:
		return time.Unix(0, tv).UTC(), nil
	case float64:
		return time.Unix(0, int64(tv)).UTC(), nil
	case json.Number:
		n, err := tv.Int64()
		return time.Unix(0, n).UTC(), err
	case string:
		return time.Parse(time.RFC3339Nano, tv)
	case time.Time:
		return tv, nil
	}
	return nil, fmt.Errorf("verif: cannot compose a time from a %T", v)
}

var c16Times = []time.Time{
	time.Unix(0, 0).UTC(), time.Date(2021, 2, 3, 4, 5, 6, 123456789, time.UTC), time.Date(1999, 12, 31, 23, 59, 59, 0, time.UTC),
	time.Date(2038, 1, 19, 3, 14, 8, 1, time.UTC), time.Date(1970, 1, 1, 0, 0, 1, 500000000, time.UTC),
}

var lossyInts = []int64{1<<53 + 1, -(1<<53 + 1), 1<<60 + 7, 9223372036854775799, -9223372036854775807}
var edgeInts = []int64{9223372036854775807, 9223372036854775800, 9223372036854775806, -9223372036854775808}

// fill sets rv to a drawn value inside the envelope decomposition can represent (DESIGN §4 C16).
func fill(t *rapid.T, rv reflect.Value, depth int) {
	switch rv.Kind() {
	case reflect.Bool:
		rv.SetBool(sim.Bool(t, "b"))
	case reflect.Int8:
		rv.SetInt(int64(sim.Intn(t, 200, "i8") - 100))
	case reflect.Int, reflect.Int16, reflect.Int32, reflect.Int64:
		vals := []int64{0, 1, -1, 42, 1000, -32000, 1 << 30, -(1 << 30)}
		if rv.Kind() == reflect.Int64 || rv.Kind() == reflect.Int {
			vals = append(vals, 1<<53, -(1 << 53), 1<<40+1)
			switch bigIntMode {
			case 1:
				vals = append(vals, lossyInts...)
			case 2:
				vals = append(vals, edgeInts...)
			}
		}
		if rv.Kind() == reflect.Int16 {
			vals = []int64{0, 1, -1, 42, 1000, -32000}
		}
		rv.SetInt(vals[sim.Intn(t, len(vals), "int")])
	case reflect.Uint8:
		rv.SetUint(uint64(sim.Intn(t, 256, "u8")))
	case reflect.Uint, reflect.Uint16, reflect.Uint32, reflect.Uint64:
		vals := []uint64{0, 1, 7, 65535}
		if rv.Kind() == reflect.Uint64 || rv.Kind() == reflect.Uint {
			vals = append(vals, 1<<53, 1<<40)
			switch bigIntMode {
			case 1:
				vals = append(vals, 1<<53+1, 1<<60+7)
			case 2:
				vals = append(vals, 9223372036854775807, 9223372036854775801, 1<<63, 1<<63+12345, 1<<64-1, 1<<64-1025)
			}
		}
		rv.SetUint(vals[sim.Intn(t, len(vals), "uint")])
	case reflect.Float32:
		rv.SetFloat([]float64{0, 0.5, 1.5, -2.25, 3, 1024.125}[sim.Intn(t, 6, "f32")])
	case reflect.Float64:
		rv.SetFloat(c16Floats[sim.Intn(t, len(c16Floats), "f64")])
	case reflect.String:
		rv.SetString(c16Strings[sim.Intn(t, len(c16Strings), "str")])
	case reflect.Slice:
		n := sim.Intn(t, 4, "slen")
		if depth <= 0 {
			n = 0
		}
		if n == 0 {
			if sim.Bool(t, "nilslice") {
				rv.Set(reflect.MakeSlice(rv.Type(), 0, 0))
			}
			return
		}
		s := reflect.MakeSlice(rv.Type(), n, n)
		for i := 0; i < n; i++ {
			fill(t, s.Index(i), depth-1)
			if s.Index(i).Kind() == reflect.Ptr && s.Index(i).IsNil() {
				s.Index(i).Set(reflect.New(rv.Type().Elem().Elem())) // no nil elements: they cannot be told from absent ones
				fill(t, s.Index(i).Elem(), depth-1)
			}
		}
		rv.Set(s)
	case reflect.Array:
		for i := 0; i < rv.Len(); i++ {
			fill(t, rv.Index(i), depth-1)
		}
	case reflect.Map:
		n := sim.Intn(t, 6, "mlen")
		if depth <= 0 {
			n = 0
		}
		if n == 0 {
			return
		}
		m := reflect.MakeMap(rv.Type())
		for i := 0; i < n; i++ {
			k := reflect.ValueOf([]string{"k", "a", "key 2", "b", "K", "é", "zz", ""}[sim.Intn(t, 8, "mkey")])
			e := reflect.New(rv.Type().Elem()).Elem()
			fill(t, e, depth-1)
			m.SetMapIndex(k, e)
		}
		rv.Set(m)
	case reflect.Ptr:
		if depth <= 0 || sim.Intn(t, 3, "nilptr") == 0 {
			return
		}
		p := reflect.New(rv.Type().Elem())
		fill(t, p.Elem(), depth-1)
		rv.Set(p)
	case reflect.Struct:
		if rv.Type() == reflect.TypeOf(za.Holder{}) {
			h := za.Holder{}
			fill(t, reflect.ValueOf(&h.First).Elem(), 1)
			pick := func(label string) any {
				switch sim.Intn(t, 4, label) {
				case 1:
					in := &za.HFirst{}
					fill(t, reflect.ValueOf(in).Elem(), 1)
					return in
				case 2:
					e := &za.HMid{}
					fill(t, reflect.ValueOf(e).Elem(), 1)
					return e
				case 3:
					it := &za.HLast{}
					fill(t, reflect.ValueOf(it).Elem(), 1)
					return it
				}
				return nil
			}
			h.Any, h.Any2 = pick("hold1"), pick("hold2")
			if sim.Bool(t, "holdmid") {
				h.Mid = []za.HMid{{}}
				fill(t, reflect.ValueOf(&h.Mid[0]).Elem(), 1)
			}
			if sim.Bool(t, "holdlast") {
				h.Last = &za.HLast{}
				fill(t, reflect.ValueOf(h.Last).Elem(), 1)
			}
			rv.Set(reflect.ValueOf(h))
			return
		}
		if rv.Type() == timeType {
			// UTC instants with nanoseconds (the default time encoding is nanoseconds since the epoch)
			rv.Set(reflect.ValueOf(c16Times[sim.Intn(t, len(c16Times), "time")]))
			return
		}
		for i := 0; i < rv.NumField(); i++ {
			sf := rv.Type().Field(i)
			if sf.PkgPath == "" && sf.Tag.Get("json") != "-" { // a field tagged "-" is not written: it stays zero
				fill(t, rv.Field(i), depth-1)
			}
		}
	case reflect.Interface:
		switch sim.Intn(t, 10, "any") {
		case 0:
		case 1:
			rv.Set(reflect.ValueOf(sim.Bool(t, "b")))
		case 2:
			rv.Set(reflect.ValueOf(c16Floats[sim.Intn(t, len(c16Floats), "f64")]))
		case 3:
			rv.Set(reflect.ValueOf(c16Strings[sim.Intn(t, len(c16Strings), "str")]))
		case 4:
			u := &za.Uniq{}
			fill(t, reflect.ValueOf(u).Elem(), 2)
			rv.Set(reflect.ValueOf(u))
		case 6:
			// a generic map that holds a value of a registered type (named by its create key in the decomposition)
			u := &za.Uniq{}
			fill(t, reflect.ValueOf(u).Elem(), 2)
			rv.Set(reflect.ValueOf(map[string]any{"k": 1.5, "in": u, "plain": map[string]any{"a": "b"}}))
		case 7:
			u := &za.Uniq{}
			fill(t, reflect.ValueOf(u).Elem(), 2)
			rv.Set(reflect.ValueOf([]any{u, "s", map[string]any{"deep": u}}))
		case 8:
			rv.Set(reflect.ValueOf(map[string]any{"a": "b", "n": nil, "l": []any{true, 2.5}}))
		case 9:
			// plain data that happens to use the create key's name for something that names no type
			rv.Set(reflect.ValueOf(map[string]any{"type": []any{2.5, "", nil, true}[sim.Intn(t, 4, "nontype")], "A": 1.5, "X": 2.5, "Name": "n"}))
		default:
			rv.Set(reflect.ValueOf([]any{1.5, "s", true}))
		}
	}
}

// same is deep equality with nil == empty for slices and maps.
func same(a, b reflect.Value, path string) (bool, string) {
	if a.Type() != b.Type() {
		return false, fmt.Sprintf("%s: type %s vs %s", path, a.Type(), b.Type())
	}
	switch a.Kind() {
	case reflect.Slice:
		if a.Len() != b.Len() {
			return false, fmt.Sprintf("%s: slice length %d vs %d", path, a.Len(), b.Len())
		}
		for i := 0; i < a.Len(); i++ {
			if ok, w := same(a.Index(i), b.Index(i), fmt.Sprintf("%s[%d]", path, i)); !ok {
				return false, w
			}
		}
	case reflect.Array:
		for i := 0; i < a.Len(); i++ {
			if ok, w := same(a.Index(i), b.Index(i), fmt.Sprintf("%s[%d]", path, i)); !ok {
				return false, w
			}
		}
	case reflect.Map:
		if a.Len() != b.Len() {
			return false, fmt.Sprintf("%s: map size %d vs %d", path, a.Len(), b.Len())
		}
		for _, k := range a.MapKeys() {
			bv := b.MapIndex(k)
			if !bv.IsValid() {
				return false, fmt.Sprintf("%s: key %v missing", path, k)
			}
			if ok, w := same(a.MapIndex(k), bv, fmt.Sprintf("%s[%v]", path, k)); !ok {
				return false, w
			}
		}
	case reflect.Ptr, reflect.Interface:
		if a.IsNil() != b.IsNil() {
			return false, fmt.Sprintf("%s: nil vs non-nil", path)
		}
		if !a.IsNil() {
			return same(a.Elem(), b.Elem(), path+".*")
		}
	case reflect.Struct:
		if a.Type() == timeType {
			if !a.Interface().(time.Time).Equal(b.Interface().(time.Time)) {
				return false, fmt.Sprintf("%s: %v vs %v", path, a.Interface(), b.Interface())
			}
			return true, ""
		}
		for i := 0; i < a.NumField(); i++ {
			if a.Type().Field(i).PkgPath != "" {
				continue
			}
			if ok, w := same(a.Field(i), b.Field(i), path+"."+a.Type().Field(i).Name); !ok {
				return false, w
			}
		}
	case reflect.Float32, reflect.Float64:
		if a.Float() != b.Float() && !(math.IsNaN(a.Float()) && math.IsNaN(b.Float())) {
			return false, fmt.Sprintf("%s: %v vs %v", path, a.Float(), b.Float())
		}
	default:
		if !reflect.DeepEqual(a.Interface(), b.Interface()) {
			return false, fmt.Sprintf("%s: %v vs %v", path, a.Interface(), b.Interface())
		}
	}
	return true, ""
}

const (
	routeAlt = 0
	routeOj  = 1
	routeSen = 2
)

type op16 struct {
	Kind     string // "roundtrip", "register", "wrong-shape", "restart"
	Type     reflect.Type
	Value    reflect.Value // addressable value of Type
	Route    int
	StructOf bool
	BigInts  int
	Tags     bool // UseTags on the alt and sen routes (the oj route always writes with GoOptions)
	Twice    bool // alt route: the same decomposition is recomposed twice (into two new targets); the second result is the judged one
	ByPtr    bool // the value is handed to Decompose / Marshal / Bytes through a pointer (addressable) or by value
}

func typeLabel(rt reflect.Type) string {
	if rt.Name() == "" {
		return "anonymous " + rt.String()
	}
	return rt.PkgPath()[strings.LastIndex(rt.PkgPath(), "/")+1:] + "." + rt.Name()
}

func (o *op16) String() string {
	switch o.Kind {
	case "register":
		return "RegisterComposer(" + typeLabel(o.Type) + ")"
	case "restart":
		return "process restart"
	case "wrong-shape":
		return "Recompose(wrong shape) into " + typeLabel(o.Type)
	}
	return fmt.Sprintf("%s %s value=%s tags=%v", []string{"alt.Recompose(alt.Decompose(v))", "oj.Unmarshal(oj.Marshal(v))", "sen.Unmarshal(sen.Bytes(v))"}[o.Route], typeLabel(o.Type), derefAll(o.Value), o.Tags) + map[bool]string{true: " by pointer", false: ""}[o.ByPtr] + map[bool]string{true: " (recomposed twice)", false: ""}[o.Twice]
}

func drawOp16(t *rapid.T) *op16 {
	o := &op16{}
	switch sim.Weighted(t, "opkind", 12, 2, 2) {
	case 1:
		o.Kind = "register"
	case 2:
		o.Kind = "wrong-shape"
	default:
		o.Kind = "roundtrip"
	}
	if sim.Intn(t, 5, "structof") == 4 {
		o.Type = drawStructOf(t)
		o.StructOf = true
	} else {
		o.Type = zooTypes[sim.Intn(t, len(zooTypes), "type")]
		// each recomposer set-up has one type it cannot serve (see unmarshalerConfig)
		if unmarshalerConfig && o.Type == reflect.TypeOf(za.Times{}) {
			o.Type = reflect.TypeOf(yv1.Invoice{})
		}
		if !unmarshalerConfig && o.Type == reflect.TypeOf(xv1.Entry{}) {
			o.Type = reflect.TypeOf(yv1.Invoice{})
		}
	}
	if o.Kind == "roundtrip" {
		o.Value = reflect.New(o.Type).Elem()
		o.BigInts = sim.Weighted(t, "bigints", 6, 1, 2)
		bigIntMode = o.BigInts
		fill(t, o.Value, 3)
		bigIntMode = 0
		o.Route = sim.Intn(t, 3, "route")
		o.ByPtr = sim.Bool(t, "byptr")
		if o.Route == routeAlt {
			o.Twice = sim.Intn(t, 3, "twice") == 0
		}
		// a type whose json tags overlap other fields' names is only unambiguous when the tags are used throughout
		o.Tags = sim.Bool(t, "usetags") || o.Type == reflect.TypeOf(za.Overlap{}) || o.Type == reflect.TypeOf(za.OverlapEmb{})
	}
	return o
}

type res16 struct {
	Err   string
	Out   reflect.Value
	Panic any
}

// resetDefaultRecomposer puts the process-wide recomposer back to its start-up state using
// public API only (what oj's init does).
func resetDefaultRecomposer(createKey string) {
	alt.DefaultRecomposer = *alt.MustNewRecomposer(createKey, nil)
	configureRecomposer(&alt.DefaultRecomposer)
	// the type named by create keys in interface-typed fields must be registered beforehand (documented
	// precondition of create keys: the registry is what maps the name back to a type)
	_ = alt.DefaultRecomposer.RegisterComposer(&za.Uniq{}, nil)
}

// run executes the op against the default recomposer (r == nil) or a given fresh one.
func (o *op16) run(r *alt.Recomposer) (res res16) {
	defer func() {
		if p := recover(); p != nil {
			res.Panic = p
		}
	}()
	switch o.Kind {
	case "register":
		target := reflect.New(o.Type).Interface()
		var err error
		if r == nil {
			err = alt.DefaultRecomposer.RegisterComposer(target, nil)
		} else {
			err = r.RegisterComposer(target, nil)
		}
		if err != nil {
			res.Err = "error"
		}
		return
	case "wrong-shape":
		target := reflect.New(o.Type)
		var err error
		data := []any{map[string]any{"x": []any{1}}, "str", 3}
		if r == nil {
			_, err = alt.Recompose(data, target.Interface())
		} else {
			_, err = r.Recompose(data, target.Interface())
		}
		if err != nil {
			res.Err = "error"
		}
		res.Out = target.Elem()
		return
	}
	v := o.Value.Interface()
	if o.ByPtr {
		v = o.Value.Addr().Interface()
	}
	target := reflect.New(o.Type)
	var err error
	opt := ojg.Options{CreateKey: "type", UseTags: o.Tags}
	switch o.Route {
	case routeAlt:
		d := alt.Decompose(v, &opt)
		if o.Twice {
			// recomposing does not use its input up: the same decomposition gives the same value a second time
			first := reflect.New(o.Type)
			if r == nil {
				_, err = alt.Recompose(d, first.Interface())
			} else {
				_, err = r.Recompose(d, first.Interface())
			}
			if err != nil {
				break
			}
		}
		if r == nil {
			_, err = alt.Recompose(d, target.Interface())
		} else {
			_, err = r.Recompose(d, target.Interface())
		}
	case routeOj:
		mopt := ojg.GoOptions
		mopt.CreateKey = "type"
		var b []byte
		b, err = oj.Marshal(v, &mopt)
		if err == nil {
			if r == nil {
				err = oj.Unmarshal(b, target.Interface())
			} else {
				err = oj.Unmarshal(b, target.Interface(), r)
			}
		}
	default:
		sopt := ojg.DefaultOptions
		sopt.CreateKey = "type"
		sopt.UseTags = o.Tags
		b := sen.Bytes(v, &sopt)
		b = append([]byte(nil), b...)
		if r == nil {
			err = sen.Unmarshal(b, target.Interface())
		} else {
			err = sen.Unmarshal(b, target.Interface(), r)
		}
	}
	if err != nil {
		res.Err = "error: " + err.Error()
	}
	res.Out = target.Elem()
	return
}

func (r res16) canon() string {
	switch {
	case r.Panic != nil:
		return fmt.Sprintf("PANIC(%v)", r.Panic)
	case r.Err != "":
		return "error"
	case r.Out.IsValid():
		return fmt.Sprintf("%+v", derefAll(r.Out))
	}
	return "ok"
}

// derefAll renders a value with pointers followed (fmt prints addresses otherwise).
func derefAll(v reflect.Value) string {
	switch v.Kind() {
	case reflect.Ptr, reflect.Interface:
		if v.IsNil() {
			return "nil"
		}
		return "&" + derefAll(v.Elem())
	case reflect.Struct:
		if v.Type() == timeType {
			return v.Interface().(time.Time).UTC().Format(time.RFC3339Nano)
		}
		var b strings.Builder
		b.WriteString("{")
		for i := 0; i < v.NumField(); i++ {
			if v.Type().Field(i).PkgPath != "" {
				continue
			}
			fmt.Fprintf(&b, "%s:%s ", v.Type().Field(i).Name, derefAll(v.Field(i)))
		}
		b.WriteString("}")
		return b.String()
	case reflect.Slice, reflect.Array:
		var b strings.Builder
		b.WriteString("[")
		for i := 0; i < v.Len(); i++ {
			b.WriteString(derefAll(v.Index(i)))
			b.WriteString(" ")
		}
		b.WriteString("]")
		return b.String()
	case reflect.Map:
		keys := v.MapKeys()
		strs := make([]string, 0, len(keys))
		for _, k := range keys {
			strs = append(strs, fmt.Sprintf("%v:%s", k, derefAll(v.MapIndex(k))))
		}
		sortStrings(strs)
		return "map[" + strings.Join(strs, " ") + "]"
	}
	return fmt.Sprintf("%v", v.Interface())
}

func sortStrings(s []string) {
	for i := 1; i < len(s); i++ {
		for j := i; j > 0 && s[j] < s[j-1]; j-- {
			s[j], s[j-1] = s[j-1], s[j]
		}
	}
}

func propC16(cx *sim.Ctx) {
	sim.Declare([]string{"short_name_collision_in_history", "anonymous_type_after_anonymous_type", "inverse_law_judged"}, []string{"failed_recomposition", "process_restart"})
	t := cx.T
	unmarshalerConfig = sim.Bool(t, "unmarshalerconfig")
	cx.Key(unmarshalerConfig)
	ops := rapid.SliceOfN(rapid.Custom(drawOp16), 2, 10).Draw(t, "ops")
	restartAt := -1
	if sim.Intn(t, 6, "restart") == 5 {
		restartAt = sim.Intn(t, len(ops), "restartat")
	}
	cx.Render(func() any {
		var out []string
		for i, o := range ops {
			out = append(out, fmt.Sprintf("%d: %s", i, o))
		}
		return map[string]any{"ops": out, "restart_before_op": restartAt}
	})
	for _, o := range ops {
		cx.Key(o.String())
	}
	cx.Key(restartAt)
	vsync.SetSeqDecider(nil)
	vsync.Restart()
	resetDefaultRecomposer("type")
	sawName := map[string]int{}
	sawType := map[reflect.Type]bool{}
	nontrivial := false
	for i, o := range ops {
		if i == restartAt {
			vsync.Restart()
			sim.Fault("process_restart")
		}
		// reference: the same op on a fresh recomposer
		fresh := alt.MustNewRecomposer("type", nil)
		configureRecomposer(fresh)
		_ = fresh.RegisterComposer(&za.Uniq{}, nil)
		want := o.run(fresh)
		cx.Exec()
		if i == 0 {
			cx.BaselineDone()
		}
		got := o.run(nil)
		cx.Exec()
		cx.Steps(1)
		attrs := map[string]any{"kind": o.Kind, "route": o.Route, "structof": o.StructOf, "ints_in_range_lost_by_forcefloat": o.BigInts == 1 || o.Type == reflect.TypeOf(za.Times{}), "anonymous": o.Type.Name() == "", "embedded": o.Type == reflect.TypeOf(za.Embeds{})}
		collides := !sawType[o.Type] && sawName[o.Type.Name()] > 0
		attrs["name_seen_before_for_other_type"] = collides
		if collides {
			sim.Probe("short_name_collision_in_history")
			if o.Type.Name() == "" {
				sim.Probe("anonymous_type_after_anonymous_type")
			}
			nontrivial = true
		}
		if o.Kind == "wrong-shape" && got.Err != "" {
			sim.Fault("failed_recomposition")
		}
		// (1) order independence: same outcome as on a fresh recomposer
		if got.canon() != want.canon() {
			cx.Fail(fmt.Sprintf("C16/order-dependence/%s", o.Kind), fmt.Sprintf("op %d %s: shared default recomposer gives %s ; fresh recomposer gives %s", i, o, clip(got.canon()), clip(want.canon())), attrs)
		}
		// (2) inverse law (oracle baseline), judged on the fresh recomposer's result
		// (the SEN route is exercised for order independence only: the statement's inverse law
		// speaks of Decompose/Recompose and of marshalled JSON)
		if o.Kind == "roundtrip" && o.Route != routeSen {
			sim.Probe("inverse_law_judged")
			switch {
			case want.Panic != nil:
				cx.Fail("C16/inverse/panic", fmt.Sprintf("%s: %v", o, want.Panic), attrs)
			case want.Err != "":
				cx.Fail("C16/inverse/error", fmt.Sprintf("%s: %s", o, want.Err), attrs)
			default:
				if ok, where := same(o.Value, want.Out, "$"); !ok {
					cx.Fail("C16/inverse/value", fmt.Sprintf("%s: differs at %s ; got %s", o, where, clip(want.canon())), attrs)
				}
			}
		}
		if !sawType[o.Type] {
			sawType[o.Type] = true
			sawName[o.Type.Name()]++
		}
	}
	if nontrivial {
		cx.NonTrivial()
	}
}

func TestC16(t *testing.T) { sim.Main(t, "C16", propC16) }
