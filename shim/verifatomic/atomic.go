// Package atomic (import path .../ojg/verifatomic) stands in for sync/atomic in the instrumented build
// (DESIGN §3.1): every operation is the real one, preceded by a sim point in scheduled mode, so that the
// controller can switch tasks between two atomic operations of a lock-free algorithm (a key and a value
// published in two steps, a flag checked before a pointer is read, ...). The race detector treats atomics as
// synchronisation and stays silent about such code; only an interleaving at this grain shows a wrong result.
package atomic

import (
	"sync/atomic"
	"unsafe"

	"github.com/ohler55/ojg/verifsync"
)

func pt() { verifsync.Point(verifsync.KAtomic, 0) }

func AddInt32(addr *int32, delta int32) int32             { pt(); return atomic.AddInt32(addr, delta) }
func AddInt64(addr *int64, delta int64) int64             { pt(); return atomic.AddInt64(addr, delta) }
func AddUint32(addr *uint32, delta uint32) uint32         { pt(); return atomic.AddUint32(addr, delta) }
func AddUint64(addr *uint64, delta uint64) uint64         { pt(); return atomic.AddUint64(addr, delta) }
func AddUintptr(addr *uintptr, d uintptr) uintptr         { pt(); return atomic.AddUintptr(addr, d) }
func LoadInt32(addr *int32) int32                         { pt(); return atomic.LoadInt32(addr) }
func LoadInt64(addr *int64) int64                         { pt(); return atomic.LoadInt64(addr) }
func LoadUint32(addr *uint32) uint32                      { pt(); return atomic.LoadUint32(addr) }
func LoadUint64(addr *uint64) uint64                      { pt(); return atomic.LoadUint64(addr) }
func LoadUintptr(addr *uintptr) uintptr                   { pt(); return atomic.LoadUintptr(addr) }
func LoadPointer(addr *unsafe.Pointer) unsafe.Pointer     { pt(); return atomic.LoadPointer(addr) }
func StoreInt32(addr *int32, v int32)                     { pt(); atomic.StoreInt32(addr, v) }
func StoreInt64(addr *int64, v int64)                     { pt(); atomic.StoreInt64(addr, v) }
func StoreUint32(addr *uint32, v uint32)                  { pt(); atomic.StoreUint32(addr, v) }
func StoreUint64(addr *uint64, v uint64)                  { pt(); atomic.StoreUint64(addr, v) }
func StoreUintptr(addr *uintptr, v uintptr)               { pt(); atomic.StoreUintptr(addr, v) }
func StorePointer(addr *unsafe.Pointer, v unsafe.Pointer) { pt(); atomic.StorePointer(addr, v) }
func SwapInt32(addr *int32, v int32) int32                { pt(); return atomic.SwapInt32(addr, v) }
func SwapInt64(addr *int64, v int64) int64                { pt(); return atomic.SwapInt64(addr, v) }
func SwapUint32(addr *uint32, v uint32) uint32            { pt(); return atomic.SwapUint32(addr, v) }
func SwapUint64(addr *uint64, v uint64) uint64            { pt(); return atomic.SwapUint64(addr, v) }
func SwapUintptr(addr *uintptr, v uintptr) uintptr        { pt(); return atomic.SwapUintptr(addr, v) }
func SwapPointer(addr *unsafe.Pointer, v unsafe.Pointer) unsafe.Pointer {
	pt()
	return atomic.SwapPointer(addr, v)
}
func CompareAndSwapInt32(addr *int32, o, n int32) bool {
	pt()
	return atomic.CompareAndSwapInt32(addr, o, n)
}
func CompareAndSwapInt64(addr *int64, o, n int64) bool {
	pt()
	return atomic.CompareAndSwapInt64(addr, o, n)
}
func CompareAndSwapUint32(addr *uint32, o, n uint32) bool {
	pt()
	return atomic.CompareAndSwapUint32(addr, o, n)
}
func CompareAndSwapUint64(addr *uint64, o, n uint64) bool {
	pt()
	return atomic.CompareAndSwapUint64(addr, o, n)
}
func CompareAndSwapUintptr(addr *uintptr, o, n uintptr) bool {
	pt()
	return atomic.CompareAndSwapUintptr(addr, o, n)
}
func CompareAndSwapPointer(addr *unsafe.Pointer, o, n unsafe.Pointer) bool {
	pt()
	return atomic.CompareAndSwapPointer(addr, o, n)
}

// The typed atomics: same method sets, a sim point before each operation.

type Bool struct{ v atomic.Bool }

func (x *Bool) Load() bool                    { pt(); return x.v.Load() }
func (x *Bool) Store(val bool)                { pt(); x.v.Store(val) }
func (x *Bool) Swap(new bool) bool            { pt(); return x.v.Swap(new) }
func (x *Bool) CompareAndSwap(o, n bool) bool { pt(); return x.v.CompareAndSwap(o, n) }

type Int32 struct{ v atomic.Int32 }

func (x *Int32) Load() int32                    { pt(); return x.v.Load() }
func (x *Int32) Store(val int32)                { pt(); x.v.Store(val) }
func (x *Int32) Swap(new int32) int32           { pt(); return x.v.Swap(new) }
func (x *Int32) Add(d int32) int32              { pt(); return x.v.Add(d) }
func (x *Int32) CompareAndSwap(o, n int32) bool { pt(); return x.v.CompareAndSwap(o, n) }

type Int64 struct{ v atomic.Int64 }

func (x *Int64) Load() int64                    { pt(); return x.v.Load() }
func (x *Int64) Store(val int64)                { pt(); x.v.Store(val) }
func (x *Int64) Swap(new int64) int64           { pt(); return x.v.Swap(new) }
func (x *Int64) Add(d int64) int64              { pt(); return x.v.Add(d) }
func (x *Int64) CompareAndSwap(o, n int64) bool { pt(); return x.v.CompareAndSwap(o, n) }

type Uint32 struct{ v atomic.Uint32 }

func (x *Uint32) Load() uint32                    { pt(); return x.v.Load() }
func (x *Uint32) Store(val uint32)                { pt(); x.v.Store(val) }
func (x *Uint32) Swap(new uint32) uint32          { pt(); return x.v.Swap(new) }
func (x *Uint32) Add(d uint32) uint32             { pt(); return x.v.Add(d) }
func (x *Uint32) CompareAndSwap(o, n uint32) bool { pt(); return x.v.CompareAndSwap(o, n) }

type Uint64 struct{ v atomic.Uint64 }

func (x *Uint64) Load() uint64                    { pt(); return x.v.Load() }
func (x *Uint64) Store(val uint64)                { pt(); x.v.Store(val) }
func (x *Uint64) Swap(new uint64) uint64          { pt(); return x.v.Swap(new) }
func (x *Uint64) Add(d uint64) uint64             { pt(); return x.v.Add(d) }
func (x *Uint64) CompareAndSwap(o, n uint64) bool { pt(); return x.v.CompareAndSwap(o, n) }

type Uintptr struct{ v atomic.Uintptr }

func (x *Uintptr) Load() uintptr                    { pt(); return x.v.Load() }
func (x *Uintptr) Store(val uintptr)                { pt(); x.v.Store(val) }
func (x *Uintptr) Swap(new uintptr) uintptr         { pt(); return x.v.Swap(new) }
func (x *Uintptr) Add(d uintptr) uintptr            { pt(); return x.v.Add(d) }
func (x *Uintptr) CompareAndSwap(o, n uintptr) bool { pt(); return x.v.CompareAndSwap(o, n) }

type Pointer[T any] struct{ v atomic.Pointer[T] }

func (x *Pointer[T]) Load() *T                    { pt(); return x.v.Load() }
func (x *Pointer[T]) Store(val *T)                { pt(); x.v.Store(val) }
func (x *Pointer[T]) Swap(new *T) *T              { pt(); return x.v.Swap(new) }
func (x *Pointer[T]) CompareAndSwap(o, n *T) bool { pt(); return x.v.CompareAndSwap(o, n) }

type Value struct{ v atomic.Value }

func (x *Value) Load() any                    { pt(); return x.v.Load() }
func (x *Value) Store(val any)                { pt(); x.v.Store(val) }
func (x *Value) Swap(new any) any             { pt(); return x.v.Swap(new) }
func (x *Value) CompareAndSwap(o, n any) bool { pt(); return x.v.CompareAndSwap(o, n) }
