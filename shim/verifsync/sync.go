// Package verifsync is the simulator-owned replacement for the subset of package sync
// that ohler55/ojg uses. It is injected into the ojg module by a build overlay generated
// at check time (see /verif/DESIGN.md §3.1, §3.4); it is never part of /repo.
//
// Two modes:
//
//	sequential (default): one goroutine; sync.Pool decisions (which pooled instance Get returns,
//	  whether Put keeps the instance) are delegated to a decider installed by the harness;
//	  mutexes are the real ones.
//	scheduled: N worker goroutines of which exactly one is runnable at any time. Every
//	  Pool.Get/Put, Mutex.Lock/Unlock, RWMutex op and Once.Do is a "sim point": the worker
//	  reports it to the controller over a raw pipe and parks on a raw pipe read until the
//	  controller wakes it. The hand-off uses raw syscalls from //go:norace code so the race
//	  detector sees no happens-before edge from the scheduler itself.
//
// RULE (DESIGN §3.8 item 5): every piece of state that is touched by more than one goroutine
// lives in scalars or fixed-size arrays and is read and written only by indexed loads and
// stores inside //go:norace functions of this file. No append, copy, map or string
// conversion on shared state.
package verifsync

import (
	"sync"
	"syscall"
	"unsafe"
)

// Pass-through parts of package sync, so that any edited tree still compiles.
type (
	WaitGroup = sync.WaitGroup
	Cond      = sync.Cond
	Locker    = sync.Locker
)

func NewCond(l Locker) *Cond                                   { return sync.NewCond(l) }
func OnceFunc(f func()) func()                                 { return sync.OnceFunc(f) }
func OnceValue[T any](f func() T) func() T                     { return sync.OnceValue(f) }
func OnceValues[T1, T2 any](f func() (T1, T2)) func() (T1, T2) { return sync.OnceValues(f) }

// Sim point kinds (also the event kinds of the controller's log).
const (
	KStart   = 1  // task is parked at its start
	KEnd     = 2  // task finished (does not park)
	KGet     = 3  // before Pool.Get (reply: index of pooled item, or -1 for New)
	KPut     = 4  // before Pool.Put (reply: 1 keep, 0 drop)
	KLock    = 5  // before Mutex.Lock / RWMutex.Lock / Once.Do (enabled only when free)
	KUnlock  = 6  // after Mutex.Unlock
	KRLock   = 7  // before RWMutex.RLock
	KRUnlock = 8  // after RWMutex.RUnlock
	KOp      = 9  // harness: boundary between two operations of a task
	KUser    = 10 // harness: explicit yield
	KTryLock = 11 // Mutex.TryLock (reply: 1 acquired, 0 not)
	KAtomic  = 12 // before a sync/atomic operation (verifatomic)
)

const (
	MaxPools = 64
	MaxItems = 8
	MaxTasks = 16
	MaxLocks = 256
)

type carrier struct {
	val    any
	putter int32
	mu     sync.Mutex // real: lock+unlock at Put and at the Get that returns val = the per-object Put->Get edge
}

type poolState struct {
	n     int32
	items [MaxItems]*carrier
	owner *Pool
}

var (
	mode int32 // 0 sequential, 1 scheduled
	cur  int32 = -1

	npools int32
	pools  [MaxPools]poolState

	nlocks int32

	ctlR, ctlW   int
	taskR, taskW [MaxTasks]int
	reply        [MaxTasks]int32
	pipesOpen    bool

	// sequential-mode decider; touched only by the single harness goroutine.
	seqDecider func(pool int32, kind int32, n int32) int32

	restarts     [32]func()
	restartNames [32]string
	nrestarts    int

	// counters (harness goroutine reads them between runs)
	CntGetReuse, CntGetNew, CntPutKeep, CntPutDrop int64
)

// ---------------------------------------------------------------- restart registry

// RegisterRestart is called from generated init() functions in ojg packages.
func RegisterRestart(name string, f func()) {
	restarts[nrestarts] = f
	restartNames[nrestarts] = name
	nrestarts++
}

// Restart empties every process-wide cache and pool of the system under test: the
// "only durable state survives a crash" operation for a library whose caches are all volatile.
// Must be called only while no worker is running.
func Restart() {
	for i := 0; i < nrestarts; i++ {
		restarts[i]()
	}
}

// RestartNames lists the packages that registered a restart hook.
func RestartNames() []string {
	out := make([]string, nrestarts)
	for i := 0; i < nrestarts; i++ {
		out[i] = restartNames[i]
	}
	return out
}

// SetSeqDecider installs the sequential-mode pool decider (nil = LIFO reuse, always keep).
func SetSeqDecider(f func(pool int32, kind int32, n int32) int32) { seqDecider = f }

// ---------------------------------------------------------------- Pool

// Pool is a specification-level model of sync.Pool: Get may return any pooled instance or a
// new one, Put may drop the instance; a Put(x) is synchronised-before the Get that returns x.
type Pool struct {
	noCopy noCopy
	New    func() any
	id     int32 // 1+index into pools; 0 = not registered yet
}

type noCopy struct{}

func (*noCopy) Lock()   {}
func (*noCopy) Unlock() {}

// usable: the pool has a place in the table or can still get one. Pools beyond the table (pools inside short-lived objects
// of the code under test) behave like a pool that never keeps anything - allowed by the contract, never a failure.
//
//go:norace
func (p *Pool) usable() bool { return p.id != 0 || npools < MaxPools }

//go:norace
func (p *Pool) reg() int32 {
	if p.id == 0 {
		if npools >= MaxPools {
			panic("verifsync: too many pools")
		}
		pools[npools].owner = p
		pools[npools].n = 0
		npools++
		p.id = npools
	}
	return p.id - 1
}

//go:norace
func poolLen(pid int32) int32 { return pools[pid].n }

//go:norace
func poolTake(pid int32, idx int32) *carrier {
	ps := &pools[pid]
	c := ps.items[idx]
	for i := idx; i+1 < ps.n; i++ {
		ps.items[i] = ps.items[i+1]
	}
	ps.n--
	ps.items[ps.n] = nil
	return c
}

//go:norace
func poolStore(pid int32, c *carrier) bool {
	ps := &pools[pid]
	if ps.n >= MaxItems {
		return false
	}
	ps.items[ps.n] = c
	ps.n++
	return true
}

//go:norace
func carrierVal(c *carrier) any { return c.val }

//go:norace
func newCarrier(v any) *carrier {
	c := new(carrier)
	c.val = v
	c.putter = cur
	return c
}

//go:norace
func cnt(p *int64) { *p++ }

//go:norace
func decide(pid, kind, n int32) int32 {
	if mode == 1 && cur >= 0 {
		return yield(kind, pid)
	}
	if seqDecider != nil {
		return seqDecider(pid, kind, n)
	}
	if kind == KGet {
		return n - 1 // most recently put, or -1 when the pool is empty
	}
	return 1
}

// Get returns a pooled instance chosen by the simulator, or New().
func (p *Pool) Get() any {
	if foreign() || !p.usable() {
		if p.New != nil {
			return p.New()
		}
		return nil
	}
	pid := p.reg()
	n := poolLen(pid)
	idx := decide(pid, KGet, n)
	if idx >= 0 && idx < poolLen(pid) {
		c := poolTake(pid, idx)
		c.mu.Lock() // acquire: ordered after the Put that stored it
		c.mu.Unlock()
		cnt(&CntGetReuse)
		return carrierVal(c)
	}
	cnt(&CntGetNew)
	if p.New != nil {
		return p.New()
	}
	return nil
}

// Put hands x back; the simulator decides whether the pool keeps it.
func (p *Pool) Put(x any) {
	if x == nil || foreign() || !p.usable() {
		return
	}
	pid := p.reg()
	keep := decide(pid, KPut, 2)
	if keep != 0 {
		c := newCarrier(x)
		c.mu.Lock()
		c.mu.Unlock() // release: everything before this Put is visible to the Get that returns x
		if poolStore(pid, c) {
			cnt(&CntPutKeep)
			return
		}
	}
	cnt(&CntPutDrop)
}

// VerifReset empties the pool (process restart).
//
//go:norace
func (p *Pool) VerifReset() {
	if p.id == 0 {
		return
	}
	ps := &pools[p.id-1]
	for i := int32(0); i < ps.n; i++ {
		ps.items[i] = nil
	}
	ps.n = 0
}

// PoolCount reports how many pools have been used so far; PoolLen how many instances pool i holds;
// PoolPutter which task put item j of pool i (-1: controller / sequential).
//
//go:norace
func PoolCount() int { return int(npools) }

//go:norace
func PoolLen(i int) int { return int(pools[i].n) }

//go:norace
func PoolPutter(i, j int) int { return int(pools[i].items[j].putter) }

// ---------------------------------------------------------------- Mutex / RWMutex / Once

// Lock identities are per run: a lock variable keeps (epoch, number) and gets a new number the first time it is met in
// a run, so that locks inside short-lived objects of the code under test (a sync.Once per call, say) do not use the table
// up. A run that meets more than MaxLocks locks treats the surplus as plain locks (no sim point): never a failure of
// the code under test.
var lockEpoch int32 = 1

//go:norace
func newLockEpoch() {
	lockEpoch++
	if lockEpoch >= 1<<19 {
		lockEpoch = 1
	}
	nlocks = 0
}

//go:norace
func lockID(p *int32) int32 {
	if *p>>12 != lockEpoch {
		if nlocks >= MaxLocks {
			return -1
		}
		nlocks++
		*p = lockEpoch<<12 | nlocks
	}
	return *p&0xfff - 1
}

//go:norace
func lockPoint(kind int32, p *int32) {
	if id := lockID(p); id >= 0 {
		yield(kind, id)
	}
}

//go:norace
func scheduled() bool { return mode == 1 && cur >= 0 && !foreign() }

// Goroutines the code under test starts by itself are not tasks of the simulator: the unchanged library starts none, an
// edited one may (a read-ahead, a background flush). Whatever such a goroutine does with package sync is done with the
// real primitives, a pool gives it a new object and drops what it puts back (both allowed by sync.Pool's contract), and
// it never talks to the controller - whose protocol knows one goroutine per task. The harness supplies the way to tell
// goroutines apart (SetGoidFn); without it every caller is taken for the task in charge, as before.
var (
	goidFn   func() int64
	taskGoid [MaxTasks]int64
	seqGoid  int64
)

// SetGoidFn is called once by the harness, on the goroutine that drives the sequential checks and the controller.
func SetGoidFn(f func() int64) {
	goidFn = f
	seqGoid = f()
}

//go:norace
func foreign() bool {
	if goidFn == nil {
		return false
	}
	g := goidFn()
	if mode == 1 && cur >= 0 {
		return g != taskGoid[cur]
	}
	return g != seqGoid
}

// Mutex is a real mutex that, in scheduled mode, is only ever locked when the controller
// knows it to be free: the real Lock never blocks, but the race detector sees the real
// acquire/release edges of the program's own synchronisation.
type Mutex struct {
	mu sync.Mutex
	id int32
}

func (m *Mutex) Lock() {
	if scheduled() {
		lockPoint(KLock, &m.id)
	}
	m.mu.Lock()
}

func (m *Mutex) Unlock() {
	m.mu.Unlock()
	if scheduled() {
		lockPoint(KUnlock, &m.id)
	}
}

func (m *Mutex) TryLock() bool {
	if scheduled() {
		id := lockID(&m.id)
		if id < 0 {
			return m.mu.TryLock()
		}
		if yield(KTryLock, id) == 0 {
			return false
		}
		m.mu.Lock()
		return true
	}
	return m.mu.TryLock()
}

type RWMutex struct {
	mu sync.RWMutex
	id int32
}

func (m *RWMutex) Lock() {
	if scheduled() {
		lockPoint(KLock, &m.id)
	}
	m.mu.Lock()
}

func (m *RWMutex) Unlock() {
	m.mu.Unlock()
	if scheduled() {
		lockPoint(KUnlock, &m.id)
	}
}

func (m *RWMutex) RLock() {
	if scheduled() {
		lockPoint(KRLock, &m.id)
	}
	m.mu.RLock()
}

func (m *RWMutex) RUnlock() {
	m.mu.RUnlock()
	if scheduled() {
		lockPoint(KRUnlock, &m.id)
	}
}

func (m *RWMutex) TryLock() bool   { return m.mu.TryLock() }
func (m *RWMutex) TryRLock() bool  { return m.mu.TryRLock() }
func (m *RWMutex) RLocker() Locker { return (*rlocker)(m) }

type rlocker RWMutex

func (r *rlocker) Lock()   { (*RWMutex)(r).RLock() }
func (r *rlocker) Unlock() { (*RWMutex)(r).RUnlock() }

// Once: Do is bracketed by a controller-managed lock so that a task that yields inside f
// never leaves another task blocked on the real Once's internal mutex.
type Once struct {
	once sync.Once
	id   int32
}

func (o *Once) Do(f func()) {
	if scheduled() {
		id := lockID(&o.id)
		if id < 0 {
			o.once.Do(f)
			return
		}
		yield(KLock, id)
		o.once.Do(f)
		yield(KUnlock, id)
		return
	}
	o.once.Do(f)
}

// VerifReset re-arms the Once (process restart: a lazily initialised package-level value is initialised again
// in the next run, by whichever task gets there first).
func (o *Once) VerifReset() { o.once = sync.Once{} }

// Map is the real sync.Map with a sim point before every operation: the operations are atomic one by one, what
// a check-then-act sequence built from them does under interleaving is for the scheduler to explore.
type Map struct{ m sync.Map }

func mapPoint() {
	if scheduled() {
		yield(KAtomic, 0)
	}
}

func (m *Map) Load(key any) (any, bool)               { mapPoint(); return m.m.Load(key) }
func (m *Map) Store(key, value any)                   { mapPoint(); m.m.Store(key, value) }
func (m *Map) LoadOrStore(key, value any) (any, bool) { mapPoint(); return m.m.LoadOrStore(key, value) }
func (m *Map) LoadAndDelete(key any) (any, bool)      { mapPoint(); return m.m.LoadAndDelete(key) }
func (m *Map) Delete(key any)                         { mapPoint(); m.m.Delete(key) }
func (m *Map) Swap(key, value any) (any, bool)        { mapPoint(); return m.m.Swap(key, value) }
func (m *Map) CompareAndSwap(key, old, new any) bool {
	mapPoint()
	return m.m.CompareAndSwap(key, old, new)
}
func (m *Map) CompareAndDelete(key, old any) bool { mapPoint(); return m.m.CompareAndDelete(key, old) }
func (m *Map) Range(f func(key, value any) bool)  { mapPoint(); m.m.Range(f) }
func (m *Map) Clear()                             { mapPoint(); m.m.Clear() }

// VerifReset empties the map (process restart).
func (m *Map) VerifReset() { m.m.Clear() }

// ---------------------------------------------------------------- scheduled mode plumbing

//go:norace
func rawWrite(fd int, b *byte, n int) {
	for {
		r, _, e := syscall.Syscall(syscall.SYS_WRITE, uintptr(fd), uintptr(unsafe.Pointer(b)), uintptr(n))
		if e == syscall.EINTR || e == syscall.EAGAIN {
			continue
		}
		if e != 0 || int(r) != n {
			panic("verifsync: pipe write failed")
		}
		return
	}
}

//go:norace
func rawRead(fd int, b *byte, n int) {
	got := 0
	for got < n {
		r, _, e := syscall.Syscall(syscall.SYS_READ, uintptr(fd), uintptr(unsafe.Pointer(uintptr(unsafe.Pointer(b))+uintptr(got))), uintptr(n-got))
		if e == syscall.EINTR || e == syscall.EAGAIN {
			continue
		}
		if e != 0 || r == 0 {
			panic("verifsync: pipe read failed")
		}
		got += int(r)
	}
}

// yield reports a sim point of the current task to the controller and parks until woken.
//
//go:norace
func yield(kind, obj int32) int32 {
	t := cur
	var msg [4]byte
	msg[0] = byte(t)
	msg[1] = byte(kind)
	msg[2] = byte(obj)
	msg[3] = byte(obj >> 8)
	rawWrite(ctlW, &msg[0], 4)
	if kind == KEnd {
		return 0
	}
	var w [1]byte
	rawRead(taskR[t], &w[0], 1)
	return reply[t]
}

// Point is a sim point placed by the harness workload (operation boundaries).
func Point(kind, obj int32) {
	if scheduled() {
		yield(kind, obj)
	}
}

// OpenPipes creates the controller pipe and one pipe per task (once per process).
func OpenPipes() {
	if pipesOpen {
		return
	}
	var fds [2]int
	if err := syscall.Pipe(fds[:]); err != nil {
		panic(err)
	}
	ctlR, ctlW = fds[0], fds[1]
	for i := 0; i < MaxTasks; i++ {
		if err := syscall.Pipe(fds[:]); err != nil {
			panic(err)
		}
		taskR[i], taskW[i] = fds[0], fds[1]
	}
	pipesOpen = true
}

// SetScheduled switches mode; only the controller calls it, and only while no worker runs.
//
//go:norace
func SetScheduled(on bool) {
	if on {
		newLockEpoch()
		mode = 1
	} else {
		mode = 0
	}
	cur = -1
}

// TaskPark is the first thing a worker goroutine does: wait until the controller picks it.
// The task id is passed explicitly because cur still names somebody else.
//
//go:norace
func TaskPark(id int32) {
	if goidFn != nil {
		taskGoid[id] = goidFn()
	}
	var w [1]byte
	rawRead(taskR[id], &w[0], 1)
}

// TaskEnd is the last thing a worker does.
//
//go:norace
func TaskEnd() { yield(KEnd, 0) }

// CtlRecv blocks until the running task reaches its next sim point.
//
//go:norace
func CtlRecv() (task, kind, obj int32) {
	var msg [4]byte
	rawRead(ctlR, &msg[0], 4)
	cur = -1
	return int32(msg[0]), int32(msg[1]), int32(msg[2]) | int32(msg[3])<<8
}

// CtlWake makes task the (only) running task, handing it the controller's decision.
//
//go:norace
func CtlWake(task int32, rep int32) {
	reply[task] = rep
	cur = task
	var w [1]byte
	w[0] = 1
	rawWrite(taskW[task], &w[0], 1)
}

// Cur is the running task (-1: controller).
//
//go:norace
func Cur() int32 { return cur }
