// overlaygen builds the go build -overlay file that instruments the ojg tree at check time
// (DESIGN §3.1). Nothing under the repo directory is modified.
//
//	overlaygen -repo /repo -shim /verif/shim -out <tmpdir>
//
// writes <tmpdir>/overlay.json and the replacement files next to it:
//   - every non-test .go file outside cmd/ that imports "sync" gets that one import spec
//     rewritten (byte-exact, same line count) to the simulator's verifsync package;
//   - the verifsync package is added virtually to the ojg module;
//   - every package that declares package-level sync.Pool values, or a package-level
//     sync.Mutex/RWMutex next to empty-map caches, gets a generated zz_verif_restart.go that
//     registers a restart hook emptying exactly those pools and caches;
//   - "lazy" package-level state of every package is part of the restart too: a package-level
//     variable declared without an initial value (or as an empty map) that no init() function
//     and no package-level initialiser mentions is in its process-start state only until first
//     use. The hook sets it back (zero value / emptied map), so that a table, memo or cache that
//     is filled on first use meets its first uses in every run and not only in the first run of
//     the process. Variables whose type involves a sync primitive are left alone.
package main

import (
	"encoding/json"
	"flag"
	"fmt"
	"go/ast"
	"go/parser"
	"go/token"
	"os"
	"path/filepath"
	"sort"
	"strconv"
	"strings"
)

type pkgInfo struct {
	name    string
	dir     string
	pools   []string
	mutexes []string
	rwmuts  []string
	maps    []string
	zero    []string // lazily written package-level variables: reset to the zero value
	lazyMap []string // package-level empty maps outside mutex files: emptied
}

func main() {
	repo := flag.String("repo", "/repo", "ojg tree")
	shim := flag.String("shim", "/verif/shim", "shim source dir")
	out := flag.String("out", "", "output dir")
	flag.Parse()
	if *out == "" {
		fmt.Fprintln(os.Stderr, "overlaygen: -out required")
		os.Exit(2)
	}
	repoAbs, _ := filepath.Abs(*repo)
	replace := map[string]string{}
	pkgs := map[string]*pkgInfo{}
	n := 0
	err := filepath.Walk(repoAbs, func(path string, fi os.FileInfo, err error) error {
		if err != nil {
			return err
		}
		rel, _ := filepath.Rel(repoAbs, path)
		if fi.IsDir() {
			base := fi.Name()
			if rel != "." && (strings.HasPrefix(base, ".") || base == "cmd" || base == "testdata" || base == "verifsync" || base == "verifatomic") {
				return filepath.SkipDir
			}
			return nil
		}
		if !strings.HasSuffix(path, ".go") || strings.HasSuffix(path, "_test.go") {
			return nil
		}
		src, err := os.ReadFile(path)
		if err != nil {
			return err
		}
		fset := token.NewFileSet()
		f, err := parser.ParseFile(fset, path, src, parser.ParseComments)
		if err != nil {
			return fmt.Errorf("parse %s: %w", path, err)
		}
		var spec, aspec *ast.ImportSpec
		for _, is := range f.Imports {
			switch p, _ := strconv.Unquote(is.Path.Value); p {
			case "sync":
				spec = is
			case "sync/atomic":
				aspec = is
			}
		}
		if spec == nil && aspec == nil {
			return nil
		}
		alias := "sync"
		if spec != nil && spec.Name != nil {
			alias = spec.Name.Name
		}
		// byte-exact replacement of the import specs, keeping line structure (the later one first so that
		// the offsets of the earlier one stay valid)
		type edit struct {
			start, end int
			repl       string
		}
		var edits []edit
		if spec != nil {
			if alias == "_" || alias == "." {
				return fmt.Errorf("%s: unsupported sync import alias %q", path, alias)
			}
			edits = append(edits, edit{fset.Position(spec.Pos()).Offset, fset.Position(spec.End()).Offset, alias + ` "github.com/ohler55/ojg/verifsync"`})
		}
		if aspec != nil {
			aalias := "atomic"
			if aspec.Name != nil {
				aalias = aspec.Name.Name
			}
			if aalias == "_" || aalias == "." {
				return fmt.Errorf("%s: unsupported sync/atomic import alias %q", path, aalias)
			}
			edits = append(edits, edit{fset.Position(aspec.Pos()).Offset, fset.Position(aspec.End()).Offset, aalias + ` "github.com/ohler55/ojg/verifatomic"`})
		}
		sort.Slice(edits, func(i, j int) bool { return edits[i].start > edits[j].start })
		nsrc := string(src)
		for _, e := range edits {
			nsrc = nsrc[:e.start] + e.repl + nsrc[e.end:]
		}
		n++
		dst := filepath.Join(*out, fmt.Sprintf("f%03d_%s", n, strings.ReplaceAll(rel, string(filepath.Separator), "_")))
		if err := os.WriteFile(dst, []byte(nsrc), 0o644); err != nil {
			return err
		}
		replace[path] = dst
		if spec == nil {
			return nil
		}

		// collect package-level pools, mutexes and empty-map caches declared in this file
		dir := filepath.Dir(path)
		pi := pkgs[dir]
		if pi == nil {
			pi = &pkgInfo{name: f.Name.Name, dir: dir}
			pkgs[dir] = pi
		}
		isSync := func(e ast.Expr, typ string) bool {
			se, ok := e.(*ast.SelectorExpr)
			if !ok {
				return false
			}
			id, ok := se.X.(*ast.Ident)
			return ok && id.Name == alias && se.Sel.Name == typ
		}
		var fileMaps []string
		fileHasMutex := false
		for _, d := range f.Decls {
			gd, ok := d.(*ast.GenDecl)
			if !ok || gd.Tok != token.VAR {
				continue
			}
			for _, s := range gd.Specs {
				vs := s.(*ast.ValueSpec)
				for i, name := range vs.Names {
					if name.Name == "_" {
						continue
					}
					var val ast.Expr
					if i < len(vs.Values) {
						val = vs.Values[i]
					}
					switch {
					case vs.Type != nil && isSync(vs.Type, "Pool"):
						pi.pools = append(pi.pools, name.Name)
					case vs.Type != nil && (isSync(vs.Type, "Once") || isSync(vs.Type, "Map")):
						pi.pools = append(pi.pools, name.Name) // (same treatment: x.VerifReset() at restart)
					case vs.Type != nil && isSync(vs.Type, "Mutex"):
						pi.mutexes = append(pi.mutexes, name.Name)
						fileHasMutex = true
					case vs.Type != nil && isSync(vs.Type, "RWMutex"):
						pi.rwmuts = append(pi.rwmuts, name.Name)
						fileHasMutex = true
					}
					if cl, ok := val.(*ast.CompositeLit); ok {
						switch {
						case isSync(cl.Type, "Pool"), isSync(cl.Type, "Once"), isSync(cl.Type, "Map"):
							pi.pools = append(pi.pools, name.Name)
						case isSync(cl.Type, "Mutex"):
							pi.mutexes = append(pi.mutexes, name.Name)
							fileHasMutex = true
						case isSync(cl.Type, "RWMutex"):
							pi.rwmuts = append(pi.rwmuts, name.Name)
							fileHasMutex = true
						default:
							if _, isMap := cl.Type.(*ast.MapType); isMap && len(cl.Elts) == 0 {
								fileMaps = append(fileMaps, name.Name)
							}
						}
					}
					if ce, ok := val.(*ast.CallExpr); ok {
						if id, ok := ce.Fun.(*ast.Ident); ok && id.Name == "make" && len(ce.Args) > 0 {
							if _, isMap := ce.Args[0].(*ast.MapType); isMap {
								fileMaps = append(fileMaps, name.Name)
							}
						}
					}
				}
			}
		}
		// an empty package-level map counts as a volatile cache only when it is declared in a
		// file that also declares the mutex guarding it (structMap/structEmptyMap + structMut)
		if fileHasMutex {
			pi.maps = append(pi.maps, fileMaps...)
		}
		return nil
	})
	if err != nil {
		fmt.Fprintln(os.Stderr, "overlaygen:", err)
		os.Exit(2)
	}

	if err := lazyState(repoAbs, pkgs); err != nil {
		fmt.Fprintln(os.Stderr, "overlaygen:", err)
		os.Exit(2)
	}

	// verifsync package, added virtually
	shimFiles, _ := filepath.Glob(filepath.Join(*shim, "verifsync", "*.go"))
	for _, sf := range shimFiles {
		abs, _ := filepath.Abs(sf)
		replace[filepath.Join(repoAbs, "verifsync", filepath.Base(sf))] = abs
	}
	atomicFiles, _ := filepath.Glob(filepath.Join(*shim, "verifatomic", "*.go"))
	for _, sf := range atomicFiles {
		abs, _ := filepath.Abs(sf)
		replace[filepath.Join(repoAbs, "verifatomic", filepath.Base(sf))] = abs
	}

	// restart hooks
	var dirs []string
	for d := range pkgs {
		dirs = append(dirs, d)
	}
	sort.Strings(dirs)
	for _, d := range dirs {
		pi := pkgs[d]
		if len(pi.pools) == 0 && len(pi.maps) == 0 && len(pi.zero) == 0 && len(pi.lazyMap) == 0 {
			continue
		}
		var b strings.Builder
		fmt.Fprintf(&b, "// Code generated by /verif/tools/overlaygen at check time. Not part of the repository.\n\npackage %s\n\n", pi.name)
		fmt.Fprintf(&b, "import \"github.com/ohler55/ojg/verifsync\"\n\n")
		rel, _ := filepath.Rel(repoAbs, d)
		fmt.Fprintf(&b, "func init() { verifsync.RegisterRestart(%q, verifRestart) }\n\n", rel)
		fmt.Fprintf(&b, "func verifRestart() {\n")
		for _, m := range pi.mutexes {
			fmt.Fprintf(&b, "\t%s.Lock()\n", m)
		}
		for _, m := range pi.rwmuts {
			fmt.Fprintf(&b, "\t%s.Lock()\n", m)
		}
		for _, m := range pi.maps {
			fmt.Fprintf(&b, "\tfor k := range %s {\n\t\tdelete(%s, k)\n\t}\n", m, m)
		}
		for i := len(pi.rwmuts) - 1; i >= 0; i-- {
			fmt.Fprintf(&b, "\t%s.Unlock()\n", pi.rwmuts[i])
		}
		for i := len(pi.mutexes) - 1; i >= 0; i-- {
			fmt.Fprintf(&b, "\t%s.Unlock()\n", pi.mutexes[i])
		}
		for _, p := range pi.pools {
			fmt.Fprintf(&b, "\t%s.VerifReset()\n", p)
		}
		for _, m := range pi.lazyMap {
			fmt.Fprintf(&b, "\tfor k := range %s {\n\t\tdelete(%s, k)\n\t}\n", m, m)
		}
		for _, z := range pi.zero {
			fmt.Fprintf(&b, "\tverifZero(&%s)\n", z)
		}
		fmt.Fprintf(&b, "}\n")
		if len(pi.zero) > 0 {
			fmt.Fprintf(&b, "\nfunc verifZero[T any](p *T) {\n\tvar z T\n\t*p = z\n}\n")
		}
		n++
		dst := filepath.Join(*out, fmt.Sprintf("r%03d_%s_restart.go", n, pi.name))
		if err := os.WriteFile(dst, []byte(b.String()), 0o644); err != nil {
			fmt.Fprintln(os.Stderr, "overlaygen:", err)
			os.Exit(2)
		}
		replace[filepath.Join(d, "zz_verif_restart.go")] = dst
	}

	var lazy []string
	for _, d := range dirs {
		rel, _ := filepath.Rel(repoAbs, d)
		for _, z := range pkgs[d].zero {
			lazy = append(lazy, rel+"."+z)
		}
		for _, z := range pkgs[d].lazyMap {
			lazy = append(lazy, rel+"."+z+"{}")
		}
	}
	if len(lazy) > 0 {
		fmt.Println("lazy package state reset at restart:", strings.Join(lazy, " "))
	}
	js, _ := json.MarshalIndent(map[string]any{"Replace": replace}, "", " ")
	if err := os.WriteFile(filepath.Join(*out, "overlay.json"), js, 0o644); err != nil {
		fmt.Fprintln(os.Stderr, "overlaygen:", err)
		os.Exit(2)
	}
	// summary on stdout for the driver's log
	var keys []string
	for k := range replace {
		r, _ := filepath.Rel(repoAbs, k)
		keys = append(keys, r)
	}
	sort.Strings(keys)
	fmt.Println("overlay:", strings.Join(keys, " "))
}

// lazyState finds, per package, the package-level variables that are in their process-start state only
// until first use (see the package comment).
func lazyState(repoAbs string, pkgs map[string]*pkgInfo) error {
	type cand struct {
		name  string
		isMap bool
		typ   ast.Expr
	}
	byDir := map[string][]cand{}
	mentioned := map[string]map[string]bool{} // dir -> identifiers used in init() bodies and package-level initialisers
	bodies := map[string]map[string][]*ast.BlockStmt{} // dir -> function or method name -> bodies (for the transitive closure)
	syncTypes := map[string]map[string]bool{} // dir -> local named types whose declaration involves a sync primitive
	names := map[string]string{}
	hasSync := func(n ast.Node) bool {
		found := false
		ast.Inspect(n, func(x ast.Node) bool {
			if se, ok := x.(*ast.SelectorExpr); ok {
				// (atomic values are plain memory: zeroing them between runs is a restart like any other)
				if id, ok := se.X.(*ast.Ident); ok && id.Name == "sync" {
					found = true
				}
			}
			return !found
		})
		return found
	}
	err := filepath.Walk(repoAbs, func(path string, fi os.FileInfo, err error) error {
		if err != nil {
			return err
		}
		rel, _ := filepath.Rel(repoAbs, path)
		if fi.IsDir() {
			base := fi.Name()
			if rel != "." && (strings.HasPrefix(base, ".") || base == "cmd" || base == "testdata" || base == "verifsync" || base == "verifatomic") {
				return filepath.SkipDir
			}
			return nil
		}
		if !strings.HasSuffix(path, ".go") || strings.HasSuffix(path, "_test.go") {
			return nil
		}
		fset := token.NewFileSet()
		f, err := parser.ParseFile(fset, path, nil, 0)
		if err != nil {
			return fmt.Errorf("parse %s: %w", path, err)
		}
		dir := filepath.Dir(path)
		names[dir] = f.Name.Name
		if mentioned[dir] == nil {
			mentioned[dir] = map[string]bool{}
			syncTypes[dir] = map[string]bool{}
			bodies[dir] = map[string][]*ast.BlockStmt{}
		}
		note := func(n ast.Node) {
			ast.Inspect(n, func(x ast.Node) bool {
				if id, ok := x.(*ast.Ident); ok {
					mentioned[dir][id.Name] = true
				}
				return true
			})
		}
		for _, d := range f.Decls {
			switch td := d.(type) {
			case *ast.FuncDecl:
				if td.Name.Name == "init" && td.Recv == nil && td.Body != nil {
					note(td.Body)
				} else if td.Body != nil {
					bodies[dir][td.Name.Name] = append(bodies[dir][td.Name.Name], td.Body)
				}
			case *ast.GenDecl:
				if td.Tok == token.TYPE {
					for _, s := range td.Specs {
						ts := s.(*ast.TypeSpec)
						if hasSync(ts.Type) {
							syncTypes[dir][ts.Name.Name] = true
						}
					}
				}
				if td.Tok != token.VAR {
					continue
				}
				for _, s := range td.Specs {
					vs := s.(*ast.ValueSpec)
					for _, v := range vs.Values {
						note(v)
					}
					for i, name := range vs.Names {
						if name.Name == "_" {
							continue
						}
						switch {
						case len(vs.Values) == 0 && vs.Type != nil:
							byDir[dir] = append(byDir[dir], cand{name: name.Name, typ: vs.Type})
						case i < len(vs.Values):
							if cl, ok := vs.Values[i].(*ast.CompositeLit); ok {
								if _, isMap := cl.Type.(*ast.MapType); isMap && len(cl.Elts) == 0 {
									byDir[dir] = append(byDir[dir], cand{name: name.Name, isMap: true})
								}
							}
							if ce, ok := vs.Values[i].(*ast.CallExpr); ok {
								if id, ok := ce.Fun.(*ast.Ident); ok && id.Name == "make" && len(ce.Args) > 0 {
									if _, isMap := ce.Args[0].(*ast.MapType); isMap {
										byDir[dir] = append(byDir[dir], cand{name: name.Name, isMap: true})
									}
								}
							}
						}
					}
				}
			}
		}
		return nil
	})
	if err != nil {
		return err
	}
	// whatever init() or an initialiser may reach through the package's own functions and methods
	// (by name, conservatively) counts as mentioned too: fnMap filled by Define() called from init()
	for dir, m := range mentioned {
		done := map[string]bool{}
		for changed := true; changed; {
			changed = false
			for name := range m {
				if done[name] {
					continue
				}
				done[name] = true
				for _, b := range bodies[dir][name] {
					ast.Inspect(b, func(x ast.Node) bool {
						if id, ok := x.(*ast.Ident); ok && !m[id.Name] {
							m[id.Name] = true
							changed = true
						}
						return true
					})
				}
			}
		}
	}
	for dir, cs := range byDir {
		for _, c := range cs {
			// (a var's own initialiser mentions only other names; its own name counts when init() or
			// another initialiser uses it)
			if mentioned[dir][c.name] {
				continue
			}
			pi := pkgs[dir]
			if pi == nil {
				pi = &pkgInfo{name: names[dir], dir: dir}
				pkgs[dir] = pi
			}
			if c.isMap {
				dup := false
				for _, m := range pi.maps {
					if m == c.name {
						dup = true
					}
				}
				if !dup {
					pi.lazyMap = append(pi.lazyMap, c.name)
				}
				continue
			}
			skip := hasSync(c.typ)
			ast.Inspect(c.typ, func(x ast.Node) bool {
				if id, ok := x.(*ast.Ident); ok && syncTypes[dir][id.Name] {
					skip = true
				}
				return true
			})
			if !skip {
				pi.zero = append(pi.zero, c.name)
			}
		}
		if pi := pkgs[dir]; pi != nil {
			sort.Strings(pi.zero)
			sort.Strings(pi.lazyMap)
		}
	}
	return nil
}
