// overlaygen builds the go build -overlay file that instruments the ojg tree at check time
// (DESIGN §3.1). Nothing under the repo directory is modified.
//
//	overlaygen -repo /repo -shim /verif/shim -out <tmpdir>
//
// writes <tmpdir>/overlay.json and the replacement files next to it:
//   - every non-test .go file outside cmd/ that imports "sync" gets that one import spec
//     rewritten (byte-exact, same line count) to the simulator's verifsync package;
//   - the verifsync package is added virtually to the ojg module;
//   - every package that declares package-level sync.Pool values, or a package-level
//     sync.Mutex/RWMutex next to empty-map caches, gets a generated zz_verif_restart.go that
//     registers a restart hook emptying exactly those pools and caches.
package main

import (
	"encoding/json"
	"flag"
	"fmt"
	"go/ast"
	"go/parser"
	"go/token"
	"os"
	"path/filepath"
	"sort"
	"strconv"
	"strings"
)

type pkgInfo struct {
	name    string
	dir     string
	pools   []string
	mutexes []string
	rwmuts  []string
	maps    []string
}

func main() {
	repo := flag.String("repo", "/repo", "ojg tree")
	shim := flag.String("shim", "/verif/shim", "shim source dir")
	out := flag.String("out", "", "output dir")
	flag.Parse()
	if *out == "" {
		fmt.Fprintln(os.Stderr, "overlaygen: -out required")
		os.Exit(2)
	}
	repoAbs, _ := filepath.Abs(*repo)
	replace := map[string]string{}
	pkgs := map[string]*pkgInfo{}
	n := 0
	err := filepath.Walk(repoAbs, func(path string, fi os.FileInfo, err error) error {
		if err != nil {
			return err
		}
		rel, _ := filepath.Rel(repoAbs, path)
		if fi.IsDir() {
			base := fi.Name()
			if rel != "." && (strings.HasPrefix(base, ".") || base == "cmd" || base == "testdata" || base == "verifsync") {
				return filepath.SkipDir
			}
			return nil
		}
		if !strings.HasSuffix(path, ".go") || strings.HasSuffix(path, "_test.go") {
			return nil
		}
		src, err := os.ReadFile(path)
		if err != nil {
			return err
		}
		fset := token.NewFileSet()
		f, err := parser.ParseFile(fset, path, src, parser.ParseComments)
		if err != nil {
			return fmt.Errorf("parse %s: %w", path, err)
		}
		var spec *ast.ImportSpec
		for _, is := range f.Imports {
			if p, _ := strconv.Unquote(is.Path.Value); p == "sync" {
				spec = is
			}
		}
		if spec == nil {
			return nil
		}
		alias := "sync"
		if spec.Name != nil {
			alias = spec.Name.Name
		}
		// byte-exact replacement of the import spec, keeping line structure
		start := fset.Position(spec.Pos()).Offset
		end := fset.Position(spec.End()).Offset
		repl := alias + ` "github.com/ohler55/ojg/verifsync"`
		if alias == "_" || alias == "." {
			return fmt.Errorf("%s: unsupported sync import alias %q", path, alias)
		}
		nsrc := string(src[:start]) + repl + string(src[end:])
		n++
		dst := filepath.Join(*out, fmt.Sprintf("f%03d_%s", n, strings.ReplaceAll(rel, string(filepath.Separator), "_")))
		if err := os.WriteFile(dst, []byte(nsrc), 0o644); err != nil {
			return err
		}
		replace[path] = dst

		// collect package-level pools, mutexes and empty-map caches declared in this file
		dir := filepath.Dir(path)
		pi := pkgs[dir]
		if pi == nil {
			pi = &pkgInfo{name: f.Name.Name, dir: dir}
			pkgs[dir] = pi
		}
		isSync := func(e ast.Expr, typ string) bool {
			se, ok := e.(*ast.SelectorExpr)
			if !ok {
				return false
			}
			id, ok := se.X.(*ast.Ident)
			return ok && id.Name == alias && se.Sel.Name == typ
		}
		var fileMaps []string
		fileHasMutex := false
		for _, d := range f.Decls {
			gd, ok := d.(*ast.GenDecl)
			if !ok || gd.Tok != token.VAR {
				continue
			}
			for _, s := range gd.Specs {
				vs := s.(*ast.ValueSpec)
				for i, name := range vs.Names {
					if name.Name == "_" {
						continue
					}
					var val ast.Expr
					if i < len(vs.Values) {
						val = vs.Values[i]
					}
					switch {
					case vs.Type != nil && isSync(vs.Type, "Pool"):
						pi.pools = append(pi.pools, name.Name)
					case vs.Type != nil && isSync(vs.Type, "Mutex"):
						pi.mutexes = append(pi.mutexes, name.Name)
						fileHasMutex = true
					case vs.Type != nil && isSync(vs.Type, "RWMutex"):
						pi.rwmuts = append(pi.rwmuts, name.Name)
						fileHasMutex = true
					}
					if cl, ok := val.(*ast.CompositeLit); ok {
						switch {
						case isSync(cl.Type, "Pool"):
							pi.pools = append(pi.pools, name.Name)
						case isSync(cl.Type, "Mutex"):
							pi.mutexes = append(pi.mutexes, name.Name)
							fileHasMutex = true
						case isSync(cl.Type, "RWMutex"):
							pi.rwmuts = append(pi.rwmuts, name.Name)
							fileHasMutex = true
						default:
							if _, isMap := cl.Type.(*ast.MapType); isMap && len(cl.Elts) == 0 {
								fileMaps = append(fileMaps, name.Name)
							}
						}
					}
					if ce, ok := val.(*ast.CallExpr); ok {
						if id, ok := ce.Fun.(*ast.Ident); ok && id.Name == "make" && len(ce.Args) > 0 {
							if _, isMap := ce.Args[0].(*ast.MapType); isMap {
								fileMaps = append(fileMaps, name.Name)
							}
						}
					}
				}
			}
		}
		// an empty package-level map counts as a volatile cache only when it is declared in a
		// file that also declares the mutex guarding it (structMap/structEmptyMap + structMut)
		if fileHasMutex {
			pi.maps = append(pi.maps, fileMaps...)
		}
		return nil
	})
	if err != nil {
		fmt.Fprintln(os.Stderr, "overlaygen:", err)
		os.Exit(2)
	}

	// verifsync package, added virtually
	shimFiles, _ := filepath.Glob(filepath.Join(*shim, "verifsync", "*.go"))
	for _, sf := range shimFiles {
		abs, _ := filepath.Abs(sf)
		replace[filepath.Join(repoAbs, "verifsync", filepath.Base(sf))] = abs
	}

	// restart hooks
	var dirs []string
	for d := range pkgs {
		dirs = append(dirs, d)
	}
	sort.Strings(dirs)
	for _, d := range dirs {
		pi := pkgs[d]
		if len(pi.pools) == 0 && len(pi.maps) == 0 {
			continue
		}
		var b strings.Builder
		fmt.Fprintf(&b, "// Code generated by /verif/tools/overlaygen at check time. Not part of the repository.\n\npackage %s\n\n", pi.name)
		fmt.Fprintf(&b, "import \"github.com/ohler55/ojg/verifsync\"\n\n")
		rel, _ := filepath.Rel(repoAbs, d)
		fmt.Fprintf(&b, "func init() { verifsync.RegisterRestart(%q, verifRestart) }\n\n", rel)
		fmt.Fprintf(&b, "func verifRestart() {\n")
		for _, m := range pi.mutexes {
			fmt.Fprintf(&b, "\t%s.Lock()\n", m)
		}
		for _, m := range pi.rwmuts {
			fmt.Fprintf(&b, "\t%s.Lock()\n", m)
		}
		for _, m := range pi.maps {
			fmt.Fprintf(&b, "\tfor k := range %s {\n\t\tdelete(%s, k)\n\t}\n", m, m)
		}
		for i := len(pi.rwmuts) - 1; i >= 0; i-- {
			fmt.Fprintf(&b, "\t%s.Unlock()\n", pi.rwmuts[i])
		}
		for i := len(pi.mutexes) - 1; i >= 0; i-- {
			fmt.Fprintf(&b, "\t%s.Unlock()\n", pi.mutexes[i])
		}
		for _, p := range pi.pools {
			fmt.Fprintf(&b, "\t%s.VerifReset()\n", p)
		}
		fmt.Fprintf(&b, "}\n")
		n++
		dst := filepath.Join(*out, fmt.Sprintf("r%03d_%s_restart.go", n, pi.name))
		if err := os.WriteFile(dst, []byte(b.String()), 0o644); err != nil {
			fmt.Fprintln(os.Stderr, "overlaygen:", err)
			os.Exit(2)
		}
		replace[filepath.Join(d, "zz_verif_restart.go")] = dst
	}

	js, _ := json.MarshalIndent(map[string]any{"Replace": replace}, "", " ")
	if err := os.WriteFile(filepath.Join(*out, "overlay.json"), js, 0o644); err != nil {
		fmt.Fprintln(os.Stderr, "overlaygen:", err)
		os.Exit(2)
	}
	// summary on stdout for the driver's log
	var keys []string
	for k := range replace {
		r, _ := filepath.Rel(repoAbs, k)
		keys = append(keys, r)
	}
	sort.Strings(keys)
	fmt.Println("overlay:", strings.Join(keys, " "))
}
