module verif/tools

go 1.23
