#!/usr/bin/env python3
"""Regenerates MANIFEST.json from the table below (kept in one place so it stays valid)."""
import json, sys

NA = {
 "C01": "acceptance of a byte string by each front-end is a pure function of the bytes: no schedule, clock, fault, interleaving or history for a simulator to own (chunk-dependence of acceptance is decided under C03)",
 "C02": "the denotation of a valid JSON text is a pure function of the text; nothing nondeterministic or fault-prone is involved",
 "C05": "Expr.Get on caller-private data is a pure function of (path, data)",
 "C06": "totality on arbitrary input quantifies over inputs only; the stream- and reuse-facing slice (panic or hang under a delivery schedule, or after an aborted call) is already a violation under C03/C07/C09",
 "C10": "SEN write-then-parse round trip is a pure function of (value, options)",
 "C11": "agreement of the JSONPath evaluators on the same (path, data) is differential testing of pure functions",
 "C12": "script evaluation is a pure function of (script, element); sharing one script between goroutines is exercised under C08",
 "C13": "path mutation on caller-private data is a pure (if destructive) function of (path, data, value)",
 "C14": "print/parse round trip of expressions is a pure function of the expression",
 "C15": "encoder agreement is a pure function of (type, value, options); its only stateful part, the per-type plan cache, is exercised as call history under C07 and as shared state under C08",
 "C18": "conversion and deep copy (including mutate-after-copy aliasing) are single-threaded and input-determined",
 "C19": "Diff/Compare/Match are pure functions of their arguments",
 "C20": "plan evaluation is a pure function of (plan, root); 'same result on every run' concerns Go's randomised map iteration order, which has no seam or seed a simulator could own, so re-running would be observation rather than simulation",
}

CHECKS = json.load(open("checks.json"))

m = {
 "version": 1,
 "setup_cmd": "./vcheck setup",
 "hooks": {
  "guard": "none: all instrumentation is a go build -overlay generated per run from the current /repo tree (sync import swapped for the simulator's verifsync package, restart hooks added as extra files); /repo contains no hook code",
  "enable": "./vcheck <id> builds /verif/harness with -overlay <tmp>/overlay.json against $VERIF_REPO (default /repo); see DESIGN.md §3.1",
  "baseline_off_cmd": "cd /repo && go test -vet=off -count=1 ./...",
  "source_commits": [],
  "add_only": True,
 },
 "engines": [
  {"name": "vsim", "path": "/verif/harness", "serves_properties": [c["property_id"] for c in CHECKS],
   "kind_free_text": "deterministic simulator written for this task: rapid v1.3.0 bit-stream as the single seeded choice source (shrinks inputs, schedules and fault sequences together), simulated io.Reader/io.Writer with delivery/flush/fault schedules, specification-level sync.Pool/Mutex model injected by build overlay, raw-pipe goroutine scheduler that is invisible to the race detector, independent reference models"},
 ],
 "checks": CHECKS,
 "not_applicable": [{"property_id": k, "reason": v} for k, v in sorted(NA.items())],
 "notes": "Technique family: deterministic simulation with fault injection. 13 of the 20 properties are pure functions of their input and are answered not applicable (DESIGN.md §1, §5). Properties claimed in DESIGN.md but not yet listed under checks are still being built/triaged; they are registered only once their check passes on the repaired tree.",
}
json.dump(m, open("MANIFEST.json", "w"), indent=1)
print("MANIFEST.json: %d checks, %d n/a" % (len(CHECKS), len(NA)))
